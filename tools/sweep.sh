#!/bin/bash
# tools/sweep.sh <tier> <seed> [<seed> ...]   - run every check; one summary line per run
# (development aid; DFMON_NO_EVIDENCE=1 keeps evidence/ untouched)
cd "$(dirname "$0")/.."
tier=$1; shift
for seed in "$@"; do
  for p in $(seq -w 1 20); do
    s=$(date +%s)
    out=$(VERIF_SEED=$seed DFMON_NO_EVIDENCE=1 ./check C$p --tier $tier 2>&1); rc=$?
    e=$(date +%s)
    echo "SWEEP tier=$tier seed=$seed C$p rc=$rc $((e-s))s | $(echo "$out" | head -1 | cut -c1-160)"
    if [ $rc -ne 0 ]; then echo "$out" | grep -E "^(VIOLATION|INCONCLUSIVE)" | cut -c1-400; echo "$out" | grep -A60 "first witness" | head -80; fi
  done
done
