#!/venv/bin/python
"""Mutation sanity tool (development aid, not a registered check).

    tools/mut.py C01 discretisedfield/mesh.py 'np.add(index, 0.5)' 'np.add(index, 0.0)' [--tier quick]

Applies one textual replacement to a scratch worktree of /repo under /tmp,
runs ./check against it (DFMON_REPO, evidence not written) and reverts.
Prints CAUGHT / MISSED.
"""
import os, subprocess, sys

SCR = os.environ.get("DFMUT_DIR", "/tmp/dfmut")
def sh(*a, **k): return subprocess.run(a, **k)
if not os.path.isdir(SCR):
    sh("git", "-C", "/repo", "worktree", "add", "--detach", SCR, "HEAD", check=True, stdout=subprocess.DEVNULL)
else:
    sh("git", "-C", SCR, "checkout", "-q", "--detach", subprocess.run(["git","-C","/repo","rev-parse","HEAD"],capture_output=True,text=True).stdout.strip(), check=True)
props, f, old, new = sys.argv[1].split(","), sys.argv[2], sys.argv[3], sys.argv[4]
extra = sys.argv[5:]
path = os.path.join(SCR, f)
src = open(path).read()
cnt = src.count(old)
if cnt != 1:
    print(f"pattern occurs {cnt} times"); sys.exit(9)
open(path, "w").write(src.replace(old, new))
try:
    for prop in props:
        env = dict(os.environ, DFMON_REPO=SCR, DFMON_NO_EVIDENCE="1")
        r = sh("/verif/check", prop, "--no-ambient", *extra, env=env, capture_output=True, text=True, cwd="/verif")
        lines = [l for l in r.stdout.splitlines() if l.startswith(("VIOLATION", "INCONCLUSIVE", "KNOWN"))]
        print(f"{prop}: exit={r.returncode} {'CAUGHT' if r.returncode == 1 else 'MISSED' if r.returncode == 0 else 'INCONCLUSIVE'}")
        for l in lines[:6]: print("   ", l[:200])
        if r.returncode not in (0, 1): print(r.stdout[-1500:], r.stderr[-1500:])
finally:
    open(path, "w").write(src)
