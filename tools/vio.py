#!/usr/bin/env python3
"""Summarise the witnesses in /verif/replays for one property: tools/vio.py C13 [monitor-substring]"""
import collections, glob, json, sys
prop = sys.argv[1]; sub = sys.argv[2] if len(sys.argv) > 2 else ""
for path in sorted(glob.glob(f"/verif/replays/{prop}_*.json")):
    r = json.load(open(path))
    if sub not in r["monitor"]: continue
    print(f"== {r['monitor']}  count={r['count']} tier={r['tier']} seed={r['seed']} cases={r['cases'][:8]}")
    groups = collections.Counter()
    for v in r["violations"]:
        i = v["info"]; w = i.get("what") if isinstance(i.get("what"), dict) else {}
        key = (str(w.get("object", i.get("object", ""))), str(w.get("call", i.get("kind", i.get("op", "")))),
               str(w.get("args", ""))[:70], str(w.get("inplace", "")), str(i.get("differs_in", "")), str(i.get("note", ""))[:50], str(i.get("problem", ""))[:60], str(i.get("exc", ""))[:90])
        groups[key] += 1
    for k, c in groups.most_common(12): print("   ", c, k)
    if len(sys.argv) > 3:
        print(json.dumps(r["violations"][int(sys.argv[3])], indent=1)[:4000])
