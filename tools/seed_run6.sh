#!/bin/bash
# tools/seed_run6.sh C07 [extra checks]  - sixth round of seed agents: one change each
# (/tmp/seed6_<id>/seed_out/{patch1.diff,demo1.py,notes.md}, stored as <id>-11)
p=$1; extra=$2
rm -rf /tmp/seed_out/$p; mkdir -p /tmp/seed_out/$p /tmp/seed_eval
src=/tmp/seed6_$p/seed_out
cp $src/notes.md /tmp/seed_out/$p/notes.md
cp $src/patch1.diff /tmp/seed_out/$p/patch11.diff; cp $src/demo1.py /tmp/seed_out/$p/demo11.py
k=11
DFSEED_DIR=/tmp/dfseed_$p DFMON_REPLAY_DIR=/tmp/dfseed_replays_$p /verif/tools/seed_eval.py /tmp/seed_out/$p/patch$k.diff /tmp/seed_out/$p/demo$k.py --checks $p${extra:+,$extra} --suite > /tmp/seed_eval/${p}_$k.json 2>/tmp/seed_eval/${p}_$k.err
/verif/tools/seed_store.py $p $k
git -C /repo worktree remove --force /tmp/dfseed_$p 2>/dev/null
rm -rf /tmp/dfseed_replays_$p
