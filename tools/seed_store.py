#!/usr/bin/env python3
"""Store an evaluated seeded change under /verif/seeded/<id>/ :
    tools/seed_store.py C03 2 [/tmp/seed_eval/C03_2.json ...]   (later json files override 'caught'/'missed')
Copies patchN.diff -> patch.diff, demoN.py -> demo.py, the agent's notes.md, and writes meta.json."""
import json, os, re, shutil, sys
prop, k = sys.argv[1], sys.argv[2]
evals = sys.argv[3:] or [f"/tmp/seed_eval/{prop}_{k}.json"]
src = f"/tmp/seed_out/{prop}"
dst = f"/verif/seeded/{prop}-{k}"
os.makedirs(dst, exist_ok=True)
shutil.copy(f"{src}/patch{k}.diff", f"{dst}/patch.diff")
shutil.copy(f"{src}/demo{k}.py", f"{dst}/demo.py")
notes = open(f"{src}/notes.md").read()
open(f"{dst}/notes.md", "w").write(notes)
ev = {}
runs = []
for e in evals:
    d = json.loads(open(e).read().strip().splitlines()[-1])
    runs.append({"file": os.path.basename(e), **{x: d.get(x) for x in ("head", "demo_clean_exit", "demo_patched_exit", "suite_exit", "suite_tail", "caught", "missed", "inconclusive")}})
    for key in ("demo_clean_exit", "demo_patched_exit", "suite_exit", "suite_tail", "head"):
        if d.get(key) is not None:
            ev[key] = d[key]
    ev["caught"] = d.get("caught")
    ev["missed"] = d.get("missed")
meta = {
    "id": f"{prop}-{k}",
    "property": prop,
    "source": "independent sub-agent given only the property text and a scratch worktree of /repo",
    "files_changed": sorted(set(re.findall(r"^\+\+\+ b/(\S+)", open(f"{dst}/patch.diff").read(), re.M))),
    "needs_to_manifest": "see notes.md (section for change %s)" % ((int(k) - 1) % 2 + 1),
    "round": (int(k) + 1) // 2,
    "confirmed_by_me": {
        "repo_head_when_confirmed": ev.get("head"),
        "demo_on_clean_tree_exit": ev.get("demo_clean_exit"),
        "demo_with_patch_exit": ev.get("demo_patched_exit"),
        "repository_test_suite_with_patch": ev.get("suite_tail"),
        "command": "tools/seed_eval.py patch.diff demo.py --checks <ids> --suite   (scratch worktree under /tmp, removed afterwards)",
    },
    "checks_that_report_it": ev.get("caught"),
    "checks_run_that_stay_silent": ev.get("missed"),
    "evaluation_runs": runs,
}
json.dump(meta, open(f"{dst}/meta.json", "w"), indent=1)
print(dst, "caught:", ev.get("caught"), "missed:", ev.get("missed"))
