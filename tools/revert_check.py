#!/venv/bin/python
"""Revert one repair at a time and run the checks that should notice (development aid).

    tools/revert_check.py [-j 3] [--only 5abed318,...]      (table: tools/reverts.json)

tools/reverts.json maps the short id of a `fix:` commit of /repo to the properties whose
quick check is expected to report the defect again.  For each entry a scratch worktree of
/repo HEAD is taken under /tmp, the commit is un-applied (`git show <c> | git apply -R`),
the checks are run against it (DFMON_REPO) and the verdicts are written to
tools/revert_results.json.  Worktrees are removed at the end.
"""
import argparse
import concurrent.futures as cf
import json
import os
import subprocess
import sys

ROOT = os.path.dirname(os.path.dirname(os.path.abspath(__file__)))


def sh(*a, **k):
    return subprocess.run(a, capture_output=True, text=True, **k)


def run(job):
    commit, props, slot = job
    scr = f"/tmp/dfrevert_{os.getpid()}_{slot}"
    head = sh("git", "-C", "/repo", "rev-parse", "HEAD").stdout.strip()
    if not os.path.isdir(scr):
        sh("git", "-C", "/repo", "worktree", "add", "-q", "--detach", scr, head)
    sh("git", "-C", scr, "checkout", "-q", "--detach", head)
    sh("git", "-C", scr, "checkout", "--", ".")
    out = {"commit": commit, "head": head, "subject": sh("git", "-C", "/repo", "log", "-1", "--format=%s", commit).stdout.strip()}
    patch = sh("git", "-C", "/repo", "show", "--format=", commit).stdout
    ap = subprocess.run(["git", "-C", scr, "apply", "-R", "--3way"], input=patch, capture_output=True, text=True)
    if ap.returncode != 0:
        ap = subprocess.run(["git", "-C", scr, "apply", "-R"], input=patch, capture_output=True, text=True)
    if ap.returncode != 0:
        out["error"] = "revert does not apply: " + ap.stderr[-300:]
        return out
    try:
        out["checks"] = {}
        for prop in props:
            env = dict(os.environ, DFMON_REPO=scr, DFMON_NO_EVIDENCE="1",
                       DFMON_REPLAY_DIR=f"/tmp/dfrevert_replays_{os.getpid()}_{slot}")
            r = sh(os.path.join(ROOT, "check"), prop, "--tier", "quick", "--no-ambient", "--workers", "4",
                   env=env, cwd=ROOT)
            out["checks"][prop] = {
                "verdict": {0: "MISSED", 1: "CAUGHT"}.get(r.returncode, "INCONCLUSIVE"),
                "monitors": [ln.split("monitor=")[1].split()[0] for ln in r.stdout.splitlines()
                             if ln.startswith("VIOLATION") and "monitor=" in ln][:6]}
    finally:
        sh("git", "-C", scr, "checkout", "--", ".")
        sh("git", "-C", scr, "reset", "-q", "--hard", head)
    return out


def main():
    ap = argparse.ArgumentParser()
    ap.add_argument("-j", type=int, default=3)
    ap.add_argument("--only", default="")
    args = ap.parse_args()
    table = json.load(open(os.path.join(ROOT, "tools", "reverts.json")))
    if args.only:
        table = {k: v for k, v in table.items() if k in set(args.only.split(","))}
    slots = {}
    for k, (c, props) in enumerate(table.items()):
        slots.setdefault(k % args.j, []).append((c, props, k % args.j))

    def run_slot(jobs):
        res = []
        for j in jobs:
            o = run(j)
            print(o["commit"], o.get("error") or {p: c["verdict"] for p, c in o["checks"].items()},
                  "#", o["subject"][:70], flush=True)
            res.append(o)
        return res

    path = os.path.join(ROOT, "tools", "revert_results.json")
    results = json.load(open(path)) if os.path.exists(path) else {}
    with cf.ThreadPoolExecutor(max_workers=args.j) as ex:
        for res in ex.map(run_slot, slots.values()):
            for o in res:
                results[o["commit"]] = o
    for slot in slots:
        sh("git", "-C", "/repo", "worktree", "remove", "--force", f"/tmp/dfrevert_{os.getpid()}_{slot}")
        sh("rm", "-rf", f"/tmp/dfrevert_replays_{os.getpid()}_{slot}")
    json.dump(results, open(path, "w"), indent=1, sort_keys=True)
    missed = [c for c, o in results.items() if c in table and
              not any(x["verdict"] == "CAUGHT" for x in o.get("checks", {}).values())]
    print(f"{len(table)} reverts; not reported: {missed}")


if __name__ == "__main__":
    sys.exit(main())
