#!/bin/bash
# tools/seed_run5.sh C07 [extra checks]  - like seed_run2.sh for the fifth round of seed agents
# (/tmp/seed5_<id>/seed_out, changes stored as <id>-9 and <id>-10)
p=$1; extra=$2
rm -rf /tmp/seed_out/$p; mkdir -p /tmp/seed_out/$p
src=/tmp/seed5_$p/seed_out
cp $src/notes.md /tmp/seed_out/$p/notes.md
for k in 1 2; do cp $src/patch$k.diff /tmp/seed_out/$p/patch$((k+8)).diff; cp $src/demo$k.py /tmp/seed_out/$p/demo$((k+8)).py; done
for k in 9 10; do
  DFSEED_DIR=/tmp/dfseed_$p DFMON_REPLAY_DIR=/tmp/dfseed_replays_$p /verif/tools/seed_eval.py /tmp/seed_out/$p/patch$k.diff /tmp/seed_out/$p/demo$k.py --checks $p${extra:+,$extra} --suite > /tmp/seed_eval/${p}_$k.json 2>/tmp/seed_eval/${p}_$k.err
  /verif/tools/seed_store.py $p $k
done
git -C /repo worktree remove --force /tmp/dfseed_$p 2>/dev/null
rm -rf /tmp/dfseed_replays_$p
