"""dfmon - runtime monitors for discretisedfield (see /verif/DESIGN.md).

Nothing in this package is imported unless the guard variable
``DISCRETISEDFIELD_VERIF=1`` is set by ``/verif/check``; the repository itself
never imports it.
"""

import os
import sys

VERIF_ROOT = os.path.dirname(os.path.dirname(os.path.abspath(__file__)))
REPO_ROOT = os.environ.get("DFMON_REPO", "/repo")
DEPS = os.path.join(VERIF_ROOT, ".deps")
GUARD = "DISCRETISEDFIELD_VERIF"


def add_deps_path():
    """Make icontract/deal importable *after* the interpreter's own packages."""
    if DEPS not in sys.path:
        sys.path.append(DEPS)
