"""Known-finding classification (by mechanism, never by seed/hash/random value).

``known_findings.json`` is committed and never written at run time.  Each entry
of its ``findings`` list names a predicate of this module; a violation record
matching a predicate of a *known* finding is reported as KNOWN-FINDING and does
not fail the check.  ``fixed`` entries suppress nothing.
"""

import json
import os

import dfmon


def _info(v):
    return v.get("info") or {}


# ---- predicates: (violation record) -> bool -------------------------------------
def vtk_txt_subregions_precision(v):
    """F23: legacy-ASCII VTK writer keeps ~10 digits of the grid coordinates, the
    JSON side-car keeps 17; on reading back the subregion check of the mesh
    refuses the (correct) subregions.  Only this exact mechanism: txt
    representation, mesh has subregions, reader raised the subregion error."""
    i = _info(v)
    return (
        v.get("monitor") == "C16.roundtrip.loads"
        and i.get("representation") == "txt"
        and bool(i.get("has_subregions"))
        and "ubregion" in str(i.get("exc", ""))
    )


def mesh_copy_transform_revalidation(v):
    """F29: the copying forms of Mesh.scale/translate/rotate90 (and Field.rotate90)
    rebuild the mesh through the constructor, which re-validates the separately
    transformed subregions with the region's 1e-12 comparison tolerance; once the
    rounding error accumulated by the history (magnified by large factors about
    far-away points) is no longer small against that tolerance the call raises
    although the in-place form succeeds.  Only this mechanism: copy form, subregion
    re-validation error, and the workload's own rounding-error bound for the history
    is at least 2 % of the region's comparison tolerance (below that bound a failure
    is a different defect and is reported)."""
    i = _info(v)
    w = i.get("what") if isinstance(i.get("what"), dict) else {}
    return (
        v.get("monitor") == "C13.step_accepted"
        and w.get("form") == "copy"
        and w.get("object") in ("mesh", "field")
        and "Subregion" in str(i.get("exc", ""))
        and isinstance(w.get("cond_region"), (int, float))
        and w["cond_region"] >= 0.02
    )


def explicit_filter_overrides_validity(v):
    """F31: an explicitly passed filter_field replaces the default validity filter
    instead of being combined with it, so an invalid cell whose filter value is
    non-zero is drawn.  The C20 workload isolates exactly these cells (invalid,
    explicit filter given and clearly non-zero there) in a monitor of their own;
    invalid cells under the default filter and cells with a zero filter value are
    judged by the image / arrow monitors and are never classified here."""
    i = _info(v)
    return (
        v.get("monitor") == "C20.invalid_hidden_under_filter"
        and i.get("filter") in ("same", "other")
    )


PREDICATES = {
    "explicit_filter_overrides_validity": explicit_filter_overrides_validity,
    "mesh_copy_transform_revalidation": mesh_copy_transform_revalidation,
    "vtk_txt_subregions_precision": vtk_txt_subregions_precision,
}


def load_known():
    path = os.path.join(dfmon.VERIF_ROOT, "known_findings.json")
    try:
        data = json.load(open(path))
    except FileNotFoundError:
        return []
    return [f for f in data.get("findings", []) if f.get("status") == "known"]


def classify(violation, known):
    """Return the matching known finding (dict) or None."""
    for f in known:
        if f.get("property") != violation.get("property"):
            continue
        pred = PREDICATES.get(f.get("classifier"))
        if pred is None:
            continue
        try:
            if pred(violation):
                return f
        except Exception:  # noqa: BLE001 - a broken predicate must not hide anything
            continue
    return None


def make_classifier():
    """record -> id of the matching known finding (or None); used inside the workers."""
    known = load_known()

    def classify_id(record):
        f = classify(record, known)
        return None if f is None else f["id"]

    return classify_id
