"""Known-finding classification (by mechanism, never by seed/hash/random value).

``known_findings.json`` is committed and never written at run time.  Each entry
of its ``findings`` list names a predicate of this module; a violation record
matching a predicate of a *known* finding is reported as KNOWN-FINDING and does
not fail the check.  ``fixed`` entries suppress nothing.
"""

import json
import os

import dfmon


def _info(v):
    return v.get("info") or {}


# ---- predicates: (violation record) -> bool -------------------------------------
def explicit_filter_overrides_validity(v):
    """F31: an explicitly passed filter_field replaces the default validity filter
    instead of being combined with it, so an invalid cell whose filter value is
    non-zero is drawn.  The C20 workload isolates exactly these cells (invalid,
    explicit filter given and clearly non-zero there) in a monitor of their own;
    invalid cells under the default filter and cells with a zero filter value are
    judged by the image / arrow monitors and are never classified here."""
    i = _info(v)
    return (
        v.get("monitor") == "C20.invalid_hidden_under_filter"
        and i.get("filter") in ("same", "other")
    )


PREDICATES = {
    "explicit_filter_overrides_validity": explicit_filter_overrides_validity,
}


def load_known():
    path = os.path.join(dfmon.VERIF_ROOT, "known_findings.json")
    try:
        data = json.load(open(path))
    except FileNotFoundError:
        return []
    return [f for f in data.get("findings", []) if f.get("status") == "known"]


def classify(violation, known):
    """Return the matching known finding (dict) or None."""
    for f in known:
        if f.get("property") != violation.get("property"):
            continue
        pred = PREDICATES.get(f.get("classifier"))
        if pred is None:
            continue
        try:
            if pred(violation):
                return f
        except Exception:  # noqa: BLE001 - a broken predicate must not hide anything
            continue
    return None


def make_classifier():
    """record -> id of the matching known finding (or None); used inside the workers."""
    known = load_known()

    def classify_id(record):
        f = classify(record, known)
        return None if f is None else f["id"]

    return classify_id
