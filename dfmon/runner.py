"""Parent side of ``/verif/check``: shard, run workers, merge, classify, write evidence."""

import argparse
import ast
import collections
import hashlib
import shutil
import json
import os
import subprocess
import sys
import tempfile
import time

import dfmon
from dfmon import anchors, verdict

PY = "/venv/bin/python"
WHEELS = "/opt/veriftools/wheels"
# witnesses of violations; DFMON_REPLAY_DIR only redirects them for parallel development runs
REPLAY_DIR = os.environ.get("DFMON_REPLAY_DIR") or os.path.join(dfmon.VERIF_ROOT, "replays")


def ensure_deps():
    if os.path.isdir(os.path.join(dfmon.DEPS, "icontract")):
        return
    subprocess.run(
        [PY, "-m", "pip", "install", "-q", "--no-index", "--find-links", WHEELS,
         "--target", dfmon.DEPS, "icontract", "deal"],
        check=True, stdout=subprocess.DEVNULL,
    )


def load_meta(prop):
    path = os.path.join(dfmon.VERIF_ROOT, "workloads", f"{prop}.py")
    tree = ast.parse(open(path).read())
    for node in tree.body:
        if isinstance(node, ast.Assign) and any(
            isinstance(t, ast.Name) and t.id == "META" for t in node.targets
        ):
            return ast.literal_eval(node.value)
    raise SystemExit(f"{path}: no literal META dict")


def repo_state():
    def git(*a):
        return subprocess.run(
            ["git", "-C", dfmon.REPO_ROOT, *a], capture_output=True, text=True
        ).stdout

    head = git("rev-parse", "HEAD").strip()
    diff = git("diff", "HEAD", "--", "discretisedfield")
    return {
        "repo_head": head,
        "repo_diff_sha": hashlib.sha1(diff.encode()).hexdigest()[:12] if diff else None,
    }


def worker_env():
    env = dict(os.environ)
    env[dfmon.GUARD] = "1"
    env["PYTHONHASHSEED"] = "0"
    env["MPLBACKEND"] = "Agg"
    env["PYTHONPATH"] = os.pathsep.join([dfmon.REPO_ROOT, dfmon.VERIF_ROOT])
    env["PYTHONDONTWRITEBYTECODE"] = "1"
    env["PYVISTA_OFF_SCREEN"] = "true"
    for k in ("OMP_NUM_THREADS", "OPENBLAS_NUM_THREADS", "MKL_NUM_THREADS"):
        env[k] = "1"
    return env


def run_workers(prop, tier, seed, ncases, nworkers, timeout, budget, tmpdir, explicit=None):
    procs = []
    env = worker_env()
    if explicit is not None:
        shards = [",".join(str(i) for i in explicit)]
    else:
        nworkers = max(1, min(nworkers, ncases))
        shards = [f"mix:{k}:{ncases}:{nworkers}" for k in range(nworkers)]
    for k, shard in enumerate(shards):
        out = os.path.join(tmpdir, f"w{k}.json")
        log = open(os.path.join(tmpdir, f"w{k}.log"), "w")
        cmd = [PY, "-X", "faulthandler", "-m", "dfmon.worker", "--prop", prop,
               "--tier", tier, "--seed", str(seed), "--cases", shard, "--out", out,
               "--budget", str(budget)]
        p = subprocess.Popen(cmd, env=env, cwd=dfmon.VERIF_ROOT, stdout=log,
                             stderr=subprocess.STDOUT)
        procs.append((p, out, log, k))
    results, problems = [], []
    deadline = time.time() + timeout
    for p, out, log, k in procs:
        try:
            rc = p.wait(timeout=max(1, deadline - time.time()))
        except subprocess.TimeoutExpired:
            p.kill()
            p.wait()
            problems.append(f"worker {k}: watchdog fired after {timeout}s")
            continue
        finally:
            log.close()
        if rc != 0 or not os.path.exists(out):
            tail = open(os.path.join(tmpdir, f"w{k}.log")).read()[-1500:]
            problems.append(f"worker {k}: exit {rc}: {tail}")
            continue
        results.append(json.load(open(out)))
    return results, problems


def run_ambient(prop, files, kexpr, timeout, tmpdir):
    """The repository's own tests with the monitors attached (DESIGN section 1)."""
    out = os.path.join(tmpdir, "ambient.json")
    env = worker_env()
    env["DFMON_OUT"] = out
    env["DFMON_PROP"] = prop
    cmd = [PY, "-m", "pytest", "-q", "--no-header", "-p", "no:cacheprovider",
           "-p", "dfmon.pytest_plugin", "--timeout=900", *files]
    if kexpr:
        cmd += ["-k", kexpr]
    log = os.path.join(tmpdir, "ambient.log")
    try:
        with open(log, "w") as fh:
            rc = subprocess.run(cmd, env=env, cwd=dfmon.REPO_ROOT, stdout=fh,
                                stderr=subprocess.STDOUT, timeout=timeout).returncode
    except subprocess.TimeoutExpired:
        return None, [f"ambient run: watchdog fired after {timeout}s"]
    if not os.path.exists(out):
        return None, [f"ambient run: no monitor output (pytest exit {rc}): "
                      + open(log).read()[-800:]]
    res = json.load(open(out))
    res["pytest_exit"] = rc
    return res, []


def merge(results):
    m = {
        "cases": 0, "evals": collections.Counter(), "events": collections.Counter(),
        "vio_counts": collections.Counter(), "unlisted_counts": collections.Counter(),
        "known_counts": collections.Counter(), "violations": [], "sigs": {},
        "samples": [], "anchors": collections.defaultdict(set), "skipped": 0,
        "notes": collections.Counter(), "attached": None,
    }
    for r in results:
        m["cases"] += r.get("cases", 0)
        m["evals"].update(r.get("evals", {}))
        m["events"].update(r.get("events", {}))
        m["vio_counts"].update(r.get("vio_counts", {}))
        m["unlisted_counts"].update(r.get("unlisted_counts", {}))
        m["known_counts"].update(r.get("known_counts", {}))
        m["notes"].update(r.get("notes", {}))
        m["violations"] += r.get("violations", [])
        for k, v in r.get("sigs", {}).items():
            m["sigs"][k] = v or m["sigs"].get(k, False)
        if len(m["samples"]) < 6:
            m["samples"] += r.get("samples", [])[:2]
        for f, lines in r.get("anchors", {}).items():
            m["anchors"][f].update(lines)
        m["skipped"] += r.get("skipped_for_budget", 0)
        m["attached"] = m["attached"] or r.get("attached")
    return m


def main(argv=None):
    ap = argparse.ArgumentParser(prog="check")
    ap.add_argument("prop")
    ap.add_argument("--tier", default=os.environ.get("VERIF_TIER", "quick"),
                    choices=["quick", "thorough"])
    ap.add_argument("--replay")
    ap.add_argument("--cases", type=int)
    ap.add_argument("--workers", type=int)
    ap.add_argument("--no-ambient", action="store_true")
    args = ap.parse_args(argv)

    t0 = time.time()
    prop = args.prop
    seed = int(os.environ.get("VERIF_SEED", "0") or 0)
    tier = args.tier
    ensure_deps()
    meta = load_meta(prop)
    explicit = None
    if args.replay:
        rp = json.load(open(args.replay))
        seed, tier = rp["seed"], rp["tier"]
        explicit = [c for c in rp["cases"] if c is not None]
        print(f"replaying {prop} seed={seed} tier={tier} cases={explicit}")

    ncases = args.cases or meta["cases"][tier]
    nworkers = args.workers or meta.get("workers", {}).get(tier, 8 if tier == "quick" else 16)
    timeout = meta.get("timeout", {}).get(tier, 900 if tier == "quick" else 7200)
    budget = meta.get("budget", {}).get(tier, timeout * 0.6)

    if explicit is None:
        import glob
        for old in glob.glob(os.path.join(REPLAY_DIR, f"{prop}_{tier}_s{seed}_*.json")):
            os.remove(old)
    tmpdir = tempfile.mkdtemp(prefix=f"dfmon_{prop}_")
    try:
        results, problems = run_workers(prop, tier, seed, ncases, nworkers, timeout,
                                        budget, tmpdir, explicit)
        ambient = None
        amb_files = [] if (args.no_ambient or explicit is not None) else \
            meta.get("ambient", {}).get(tier, [])
        if amb_files:
            ambient, p2 = run_ambient(prop, amb_files, meta.get("ambient_k"),
                                      meta.get("ambient_timeout", 3600), tmpdir)
            problems += p2
            if ambient:
                results.append(ambient)
    finally:
        shutil.rmtree(tmpdir, ignore_errors=True)

    m = merge(results)
    # ---- verdict -------------------------------------------------------------
    inconclusive = list(problems)
    if m["cases"] == 0:
        inconclusive.append("no case was executed")
    for mon in meta.get("deciding", []):
        if m["evals"].get(mon, 0) == 0 and explicit is None:
            inconclusive.append(f"deciding monitor {mon} was never evaluated")

    # a check only decides with the monitors its property owns: violations of other
    # properties' ambient monitors (attached in every worker) are reported in the
    # evidence but never raise this property's alarm
    owns = set(meta.get("owns", []))

    def owned(mon):
        return mon.startswith(prop + ".") or mon == "harness.uncaught" or mon in owns

    foreign = {k: c for k, c in m["vio_counts"].items() if not owned(k)}
    m["violations"] = [v for v in m["violations"] if owned(v["monitor"])]
    m["vio_counts"] = collections.Counter(
        {k: c for k, c in m["vio_counts"].items() if owned(k)})
    m["unlisted_counts"] = collections.Counter(
        {k: c for k, c in m["unlisted_counts"].items() if owned(k)})

    # every violation was classified inside its worker (dfmon.verdict): a listed known
    # finding, or unlisted.  Stored witnesses are a sample; the counts are complete.
    known = {f["id"]: f for f in verdict.load_known()}
    unlisted = [v for v in m["violations"] if not v.get("known_finding")]
    known_seen = collections.OrderedDict(
        (fid, [known.get(fid, {"id": fid, "what": "?"}), c])
        for fid, c in sorted(m["known_counts"].items())
        if known.get(fid, {}).get("property") == prop)
    overflow = {}
    n_unlisted = sum(m["unlisted_counts"].values())

    replay_paths = []
    if unlisted:
        os.makedirs(REPLAY_DIR, exist_ok=True)
        by_mon = collections.OrderedDict()
        for v in unlisted:
            by_mon.setdefault(v["monitor"], []).append(v)
        for mon, vs in list(by_mon.items())[:12]:
            safe = "".join(c if c.isalnum() else "_" for c in mon)
            path = os.path.join(REPLAY_DIR, f"{prop}_{tier}_s{seed}_{safe}.json")
            cases = sorted({v["case"] for v in vs if v.get("case") is not None})[:20]
            json.dump({"property": prop, "tier": tier, "seed": seed, "monitor": mon,
                       "cases": cases, "count": m["unlisted_counts"].get(mon, len(vs)),
                       "violations": vs[:10], **repo_state()},
                      open(path, "w"), indent=1)
            replay_paths.append((mon, path, len(vs)))

    # ---- evidence ------------------------------------------------------------
    nontrivial = sum(1 for v in m["sigs"].values() if v)
    coverage = {
        "evaluations": m["cases"],
        "distinct_nontrivial": nontrivial,
        "distinct_signatures": len(m["sigs"]),
        "rule": meta["rule"],
        "samples": m["samples"][:6],
        "monitor_evaluations": dict(sorted(m["evals"].items())),
        "events": dict(sorted(m["events"].items())),
        "anchor_lines_hit": anchors.anchor_report(prop, m["anchors"]),
        "violations_by_monitor": dict(m["unlisted_counts"]),
        "foreign_monitor_violations": foreign,
        "known_findings_seen": {k: c for k, (f, c) in known_seen.items()},
        "inconclusive_reasons": inconclusive,
        "cases_skipped_for_time_budget": m["skipped"],
        "workers": len(results),
        "ambient": None if not ambient else {
            "files": amb_files, "pytest_exit": ambient.get("pytest_exit"),
            "tests_run": ambient.get("tests_run"),
            "monitor_evaluations": ambient.get("evals"),
        },
        "notes": dict(m["notes"]),
        "attached": m["attached"],
        **repo_state(),
    }
    coverage["anchored_mechanisms_not_reached"] = [
        a["mechanism"] for a in coverage["anchor_lines_hit"] if a.get("lines_hit", 0) == 0]
    if meta.get("exhaustive_part"):
        coverage["exhaustive_part"] = meta["exhaustive_part"]
    evidence = {
        "property_id": prop, "tier": tier, "seed": seed, "level": meta["level"],
        "coverage": coverage, "assumptions": meta.get("assumptions", []),
        "wall_s": round(time.time() - t0, 2),
        "violations": n_unlisted,
    }
    if explicit is None and not os.environ.get("DFMON_NO_EVIDENCE"):
        os.makedirs(os.path.join(dfmon.VERIF_ROOT, "evidence"), exist_ok=True)
        json.dump(evidence, open(os.path.join(dfmon.VERIF_ROOT, "evidence",
                                              f"{prop}.json"), "w"), indent=1)

    # ---- report --------------------------------------------------------------
    total_evals = sum(m["evals"].values())
    print(f"{prop} tier={tier} seed={seed}: {m['cases']} cases, {total_evals} monitor "
          f"evaluations over {len(m['evals'])} monitors, {nontrivial} distinct non-trivial "
          f"signatures, {evidence['wall_s']}s")
    for fid, (f, c) in known_seen.items():
        print(f"KNOWN-FINDING: property={prop} {fid} {f['what']} (seen {c}x)")
    if unlisted:
        for mon, path, n in replay_paths:
            print(f"VIOLATION property={prop} replay={path}  monitor={mon} count="
                  f"{m['unlisted_counts'].get(mon, n)}")
        v = unlisted[0]
        print("first witness:", json.dumps(v, indent=1)[:3000])
        return 1
    if overflow:
        # more violations than were stored, and the stored ones were all known:
        # cannot classify the rest -> not silently accepted
        print(f"INCONCLUSIVE property={prop} {sum(overflow.values())} violations beyond "
              "the storage cap could not be classified")
        return 2
    if inconclusive:
        for r in inconclusive:
            print(f"INCONCLUSIVE property={prop} {r[:600]}")
        return 2
    for mech in coverage["anchored_mechanisms_not_reached"]:
        print(f"NOTE property={prop} anchored mechanism not executed by this run: {mech}")
    print(f"HELD property={prop} on everything explored")
    return 0


if __name__ == "__main__":
    sys.exit(main())
