"""Which anchored mechanism lines did the run reach?  (supporting observer only)

``sys.monitoring`` LINE events restricted to the anchored repository files; each
line is DISABLEd after its first hit, so the cost is a few percent.  The result
(file -> sorted list of executed line numbers) is mapped onto the mechanism
ranges of properties.jsonl by the parent (``anchor_report``).
"""

import ast
import json
import os
import re
import sys

import dfmon

TOOL = 4  # a free tool id


def start(files):
    if not files or not hasattr(sys, "monitoring"):
        return None
    mon = sys.monitoring
    wanted = {os.path.realpath(os.path.join(dfmon.REPO_ROOT, f)): f for f in files}
    hits = {f: set() for f in files}
    try:
        mon.use_tool_id(TOOL, "dfmon-anchors")
    except ValueError:
        return None

    def on_line(code, line):
        rel = wanted.get(code.co_filename)
        if rel is not None:
            hits[rel].add(line)
        return mon.DISABLE

    mon.register_callback(TOOL, mon.events.LINE, on_line)
    mon.set_events(TOOL, mon.events.LINE)
    return hits


def stop(hits):
    if hits is None:
        return {}
    mon = sys.monitoring
    mon.set_events(TOOL, 0)
    mon.register_callback(TOOL, mon.events.LINE, None)
    mon.free_tool_id(TOOL)
    return {f: sorted(v) for f, v in hits.items()}


# ------------------------------------------------------------------ parent side
def _def_ranges(path):
    """{'Class.meth': (lo, hi), 'meth': (lo, hi), 'func': (lo, hi)} from the AST."""
    out = {}
    try:
        tree = ast.parse(open(path).read())
    except Exception:  # noqa: BLE001
        return out
    for node in tree.body:
        if isinstance(node, (ast.FunctionDef, ast.AsyncFunctionDef)):
            out[node.name] = (node.lineno, node.end_lineno)
        elif isinstance(node, ast.ClassDef):
            for sub in node.body:
                if isinstance(sub, (ast.FunctionDef, ast.AsyncFunctionDef)):
                    rng = (sub.lineno, sub.end_lineno)
                    key = f"{node.name}.{sub.name}"
                    if key in out:  # property getter + setter: keep the union
                        rng = (min(rng[0], out[key][0]), max(rng[1], out[key][1]))
                    out[key] = rng
                    out.setdefault(sub.name, rng)
    return out


_PINNED = {}


def _pinned_def_ranges(relpath):
    """_def_ranges of the file as it was at the repository's root (pinned) commit."""
    if relpath in _PINNED:
        return _PINNED[relpath]
    import subprocess
    import tempfile
    out = {}
    try:
        root = subprocess.run(["git", "-C", dfmon.REPO_ROOT, "rev-list", "--max-parents=0", "HEAD"],
                              capture_output=True, text=True).stdout.split()[-1]
        src = subprocess.run(["git", "-C", dfmon.REPO_ROOT, "show", f"{root}:{relpath}"],
                             capture_output=True, text=True).stdout
        with tempfile.NamedTemporaryFile("w", suffix=".py", delete=False) as fh:
            fh.write(src)
        out = _def_ranges(fh.name)
        os.unlink(fh.name)
    except Exception:  # noqa: BLE001
        pass
    _PINNED[relpath] = out
    return out


def anchor_report(prop_id, merged_hits):
    """Per mechanism of the property: how many of its lines were executed."""
    props = os.path.join(dfmon.VERIF_ROOT, "properties.jsonl")
    report = []
    cache = {}
    for line in open(props):
        p = json.loads(line)
        if p["id"] != prop_id:
            continue
        for mech in p["anchors"]["mechanism"]:
            where = mech.get("where", "")
            total_hit = 0
            spans = []
            for part in where.split(";"):
                m = re.match(r"\s*([\w/\.]+\.py):([\d,\-]+)\s*(.*)", part)
                if not m:
                    continue
                f, nums, names = m.group(1), m.group(2), m.group(3)
                if f not in cache:
                    cache[f] = _def_ranges(os.path.join(dfmon.REPO_ROOT, f))
                ranges = []
                for name in re.findall(r"[A-Za-z_][\w\.]*", names):
                    name = name.strip(".")
                    if name in cache[f]:
                        ranges.append(cache[f][name])
                if not ranges:
                    # the stated numbers refer to the pinned commit: map each span to the
                    # function(s) it overlaps there and use those functions' ranges in
                    # the current tree (repairs shift line numbers)
                    pinned = _pinned_def_ranges(f)
                    for r in nums.split(","):
                        lo, _, hi = r.partition("-")
                        lo, hi = int(lo), int(hi or lo)
                        names_here = [k for k, (a, b) in pinned.items()
                                      if "." in k and a <= hi and lo <= b] or \
                                     [k for k, (a, b) in pinned.items() if a <= hi and lo <= b]
                        mapped = [cache[f][k] for k in names_here if k in cache[f]]
                        ranges += mapped or [(lo, hi)]
                hit_lines = set(merged_hits.get(f, ()))
                for lo, hi in ranges:
                    n = sum(1 for x in hit_lines if lo <= x <= hi)
                    total_hit += n
                    spans.append(f"{f}:{lo}-{hi}")
            report.append(
                {"mechanism": mech.get("name"), "spans": spans, "lines_hit": total_hit}
            )
    return report
