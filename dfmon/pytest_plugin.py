"""pytest plug-in for the ambient workload: the repository's own tests executed
with the monitors attached (``-p dfmon.pytest_plugin``, guard variable set)."""

import json
import os
import time

import dfmon
from dfmon import core

_T0 = time.time()
_TESTS = {"run": 0}


def pytest_configure(config):
    if os.environ.get(dfmon.GUARD) != "1":
        return
    from dfmon import attach

    rec = core.set_recorder(
        core.Recorder(os.environ.get("DFMON_PROP", "?"), "thorough", 0)
    )
    rec.source = "ambient"
    from dfmon import verdict

    rec.classifier = verdict.make_classifier()
    config._dfmon_attached = attach.attach_all(rec)


def pytest_runtest_setup(item):
    core.rec().case = item.nodeid
    _TESTS["run"] += 1


def pytest_sessionfinish(session, exitstatus):
    out = os.environ.get("DFMON_OUT")
    if not out or os.environ.get(dfmon.GUARD) != "1":
        return
    rec = core.rec()
    rec.case = None
    data = rec.dump()
    # ambient cases are not replayable by (seed, index): keep the test id only
    for v in data["violations"]:
        v["test"] = v.pop("case", None)
        v["case"] = None
    data["cases"] = 0
    data["tests_run"] = _TESTS["run"]
    data["attached"] = getattr(session.config, "_dfmon_attached", None)
    data["wall_s"] = time.time() - _T0
    with open(out, "w") as fh:
        json.dump(data, fh)
