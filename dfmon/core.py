"""Recorder, case context, digests and comparison helpers shared by all monitors.

Everything here is passive (rule R6 of DESIGN.md): monitors record into the
per-process ``REC`` and never raise into, or mutate, the code they observe.
"""

import collections
import hashlib
import json
import traceback

import numpy as np

MAX_STORED_VIOLATIONS = 240  # per worker process (all are *counted*)
MAX_STORED_PER_MONITOR = 12
MAX_SAMPLES = 4


# --------------------------------------------------------------------------- json
def jsonable(obj, depth=0):
    """Best-effort conversion of a witness value to something json can store."""
    if depth > 6:
        return repr(obj)[:200]
    if obj is None or isinstance(obj, (bool, int, str)):
        return obj
    if isinstance(obj, float):
        return obj if np.isfinite(obj) else repr(obj)
    if isinstance(obj, complex):
        return repr(obj)
    if isinstance(obj, np.generic):
        return jsonable(obj.item(), depth + 1)
    if isinstance(obj, np.ndarray):
        if obj.size <= 64:
            return {
                "ndarray": jsonable(obj.tolist(), depth + 1),
                "dtype": str(obj.dtype),
                "shape": list(obj.shape),
            }
        return {
            "ndarray_head": jsonable(obj.ravel()[:16].tolist(), depth + 1),
            "dtype": str(obj.dtype),
            "shape": list(obj.shape),
        }
    if isinstance(obj, dict):
        return {str(k): jsonable(v, depth + 1) for k, v in list(obj.items())[:40]}
    if isinstance(obj, (list, tuple, set, frozenset, range)):
        lst = list(obj)
        out = [jsonable(v, depth + 1) for v in lst[:40]]
        if len(lst) > 40:
            out.append(f"... {len(lst) - 40} more")
        return out
    if isinstance(obj, BaseException):
        return f"{type(obj).__name__}: {str(obj)[:300]}"
    return repr(obj)[:300]


# ------------------------------------------------------------------------ digests
def arr_hash(a):
    if a is None:
        return None
    a = np.asarray(a)
    h = hashlib.blake2b(digest_size=12)
    h.update(str(a.dtype).encode())
    h.update(str(a.shape).encode())
    if a.dtype == object:
        h.update(repr(a.tolist()).encode())
    else:
        h.update(np.ascontiguousarray(a).tobytes())
    return h.hexdigest()


_MISSING = object()


def _raw(o, name, default=None):
    """Slot value without going through ``__getattr__`` (half-built objects)."""
    try:
        return object.__getattribute__(o, name)
    except AttributeError:
        return default


def region_digest(r):
    if r is None:
        return None
    return (
        arr_hash(_raw(r, "_pmin")),
        arr_hash(_raw(r, "_pmax")),
        tuple(_raw(r, "_dims", ())),
        tuple(_raw(r, "_units", ())),
        float(_raw(r, "_tolerance_factor", 0.0)),
    )


def mesh_digest(m):
    if m is None:
        return None
    subs = _raw(m, "_subregions") or {}
    return (
        region_digest(_raw(m, "_region")),
        arr_hash(_raw(m, "_n")),
        str(_raw(m, "_bc", "")),
        tuple((k, region_digest(v)) for k, v in subs.items()),
    )


def field_digest(f):
    vm = _raw(f, "_vdim_mapping")
    vd = _raw(f, "_vdims")
    unit = _raw(f, "_unit")
    return (
        mesh_digest(_raw(f, "_mesh")),
        _raw(f, "_nvdim"),
        arr_hash(_raw(f, "_array")),
        arr_hash(_raw(f, "_valid")),
        None if vd is None else tuple(vd),
        None if vm is None else tuple(vm.items()),
        None if unit is None else str(unit),
    )


def digest(obj):
    """Digest of a Region / Mesh / Field (by attribute, not by class import)."""
    slots = getattr(type(obj), "__slots__", ())
    if "_array" in slots and "_mesh" in slots:
        return ("field",) + field_digest(obj)
    if "_region" in slots and "_n" in slots:
        return ("mesh",) + mesh_digest(obj)
    if "_pmin" in slots:
        return ("region",) + region_digest(obj)
    if isinstance(obj, np.ndarray):
        return ("ndarray", arr_hash(obj))
    return ("repr", repr(obj))


# -------------------------------------------------------------------- comparisons
def close(a, b, rtol=1e-12, scale=None, equal_nan=True):
    """|a-b| <= rtol*scale element-wise; ``scale`` defaults to max(|a|,|b|) overall.

    No hidden absolute tolerance (rule R2).  Shapes must agree exactly.
    """
    a = np.asarray(a)
    b = np.asarray(b)
    if a.shape != b.shape:
        return False
    if a.size == 0:
        return True
    if a.dtype == bool or b.dtype == bool:
        return bool(np.array_equal(a, b))
    with np.errstate(all="ignore"):
        fa = np.isfinite(a)
        fb = np.isfinite(b)
        if not np.array_equal(fa, fb):
            return False
        if not fa.all():
            # non-finite entries must match exactly (nan==nan allowed)
            na, nb = a[~fa], b[~fb]
            if equal_nan:
                same = (na == nb) | (np.isnan(na) & np.isnan(nb))
            else:
                same = na == nb
            if not np.all(same):
                return False
            a = a[fa]
            b = b[fb]
            if a.size == 0:
                return True
        if scale is None:
            scale = max(np.max(np.abs(a)), np.max(np.abs(b)))
        if scale == 0:
            return bool(np.all(a == b))
        return bool(np.all(np.abs(a - b) <= rtol * scale))


def maxdiff(a, b):
    a = np.asarray(a)
    b = np.asarray(b)
    if a.shape != b.shape:
        return f"shape {a.shape} vs {b.shape}"
    with np.errstate(all="ignore"):
        try:
            return float(np.nanmax(np.abs(a.astype(complex) - b.astype(complex))))
        except Exception:
            return "n/a"


# ----------------------------------------------------------------------- recorder
class Recorder:
    def __init__(self, prop="?", tier="quick", seed=0):
        self.prop = prop
        self.tier = tier
        self.seed = seed
        self.evals = collections.Counter()
        self.events = collections.Counter()
        self.vio_counts = collections.Counter()
        self.unlisted_counts = collections.Counter()
        self.known_counts = collections.Counter()
        self.classifier = None  # record -> known-finding id or None
        self.violations = []
        self.sigs = {}
        self.samples = []
        self.auto_samples = []  # fallback when a workload stores no sample itself
        self.cases = 0
        self.case = None
        self.source = "directed"
        self.notes = collections.Counter()

    # monitors -------------------------------------------------------------
    def check(self, monitor, ok, **info):
        """Record one evaluation of ``monitor``; a false ``ok`` is a violation."""
        self.evals[monitor] += 1
        if ok:
            return True
        self.violation(monitor, **info)
        return False

    def violation(self, monitor, **info):
        self.vio_counts[monitor] += 1
        record = {
            "property": self.prop,
            "monitor": monitor,
            "case": self.case,
            "seed": self.seed,
            "tier": self.tier,
            "source": self.source,
            "info": jsonable(info),
        }
        # classify now, so that every violation (not only the stored ones) is
        # attributed either to a listed known finding or to "unlisted"
        fid = None
        if self.classifier is not None:
            try:
                fid = self.classifier(record)
            except Exception:  # noqa: BLE001
                fid = None
        if fid is not None:
            self.known_counts[fid] += 1
            if self.known_counts[fid] <= 3:
                record["known_finding"] = fid
                self.violations.append(record)
            return
        self.unlisted_counts[monitor] += 1
        if (
            self.unlisted_counts[monitor] <= MAX_STORED_PER_MONITOR
            and len(self.violations) < MAX_STORED_VIOLATIONS
        ):
            self.violations.append(record)

    def event(self, kind, k=1):
        self.events[kind] += k

    def sig(self, signature, nontrivial=True):
        key = json.dumps(jsonable(signature), sort_keys=True)
        self.sigs[key] = bool(nontrivial) or self.sigs.get(key, False)
        if len(self.auto_samples) < MAX_SAMPLES and nontrivial:
            self.auto_samples.append({"case": self.case, "signature": jsonable(signature)})

    def sample(self, obj):
        if len(self.samples) < MAX_SAMPLES:
            self.samples.append(jsonable(obj))

    def dump(self):
        return {
            "prop": self.prop,
            "tier": self.tier,
            "seed": self.seed,
            "cases": self.cases,
            "evals": dict(self.evals),
            "events": dict(self.events),
            "vio_counts": dict(self.vio_counts),
            "unlisted_counts": dict(self.unlisted_counts),
            "known_counts": dict(self.known_counts),
            "violations": self.violations,
            "sigs": self.sigs,
            "samples": self.samples or self.auto_samples,
            "notes": dict(self.notes),
        }


REC = Recorder()


def set_recorder(rec):
    global REC
    REC = rec
    return rec


def rec():
    return REC


# ------------------------------------------------------------------- case context
class Ctx:
    """What a workload's ``run_case`` receives."""

    def __init__(self, recorder, rng, index, tier):
        self.rec = recorder
        self.rng = rng
        self.i = index
        self.tier = tier
        self.thorough = tier == "thorough"

    def check(self, monitor, ok, **info):
        return self.rec.check(monitor, bool(ok), **info)

    def event(self, kind, k=1):
        self.rec.event(kind, k)

    def sig(self, signature, nontrivial=True):
        self.rec.sig(signature, nontrivial)

    def sample(self, obj):
        self.rec.sample(obj)

    # rule R4 ----------------------------------------------------------------
    def expect_raises(self, monitor, fn, *args, unchanged=(), what=None, **kwargs):
        """``fn(*args)`` must raise (any exception) and leave ``unchanged`` as is."""
        before = [digest(o) for o in unchanged]
        try:
            res = fn(*args, **kwargs)
        except Exception as e:  # noqa: BLE001 - any exception is a rejection
            self.rec.check(monitor, True)
            for o, d in zip(unchanged, before):
                self.rec.check(
                    monitor + ".unchanged",
                    digest(o) == d,
                    what=what,
                    exc=e,
                    note="object modified by a rejected call",
                )
            return None
        self.rec.check(
            monitor,
            False,
            what=what,
            note="accepted although it must be rejected",
            result=repr(res)[:200],
        )
        return res

    def expect_ok(self, monitor, fn, *args, what=None, **kwargs):
        """``fn(*args)`` must not raise; returns (ok, result)."""
        try:
            res = fn(*args, **kwargs)
        except Exception as e:  # noqa: BLE001
            self.rec.check(
                monitor,
                False,
                what=what,
                note="raised although it must be accepted",
                exc=e,
                tb=traceback.format_exc(limit=-4),
            )
            return False, None
        self.rec.check(monitor, True)
        return True, res
