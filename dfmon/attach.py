"""Attach the ambient-safe monitors to the real classes (no repository edit).

* structural class invariants of Region / Mesh / Field through ``icontract``
  (C13, C14, C02, C08) - evaluated around every public call and property read;
* hand-written passive wrappers around the Field operators (C03 operands stay
  untouched; C08 validity pass-through / AND / no aliasing).

All conditions record into the recorder and return True (DESIGN.md section 1).
Only monitors that are sound for *arbitrary* API usage live here, because the
same attachment observes the repository's own test-suite (ambient workload).
"""

import functools
import os

import numpy as np

import dfmon
from dfmon import core

_ATTACHED = False


class MonitorBroken(Exception):
    """Never raised: conditions always return True (kept for icontract's error=)."""


# ---------------------------------------------------------------- invariants
def _region_problem(r):
    pmin, pmax = r._pmin, r._pmax
    if not (isinstance(pmin, np.ndarray) and isinstance(pmax, np.ndarray)):
        return "corners are not arrays"
    if pmin.shape != pmax.shape or pmin.ndim != 1 or pmin.size == 0:
        return f"corner shapes {pmin.shape} {pmax.shape}"
    if pmin.dtype.kind not in "iuf" or pmax.dtype.kind not in "iuf":
        return f"corner dtype {pmin.dtype} {pmax.dtype} is not real"
    if not np.all(pmin < pmax):
        return "not pmin < pmax in every direction"
    dims, units = r._dims, r._units
    if len(dims) != pmin.size or len(units) != pmin.size:
        return f"len(dims)={len(dims)} len(units)={len(units)} ndim={pmin.size}"
    if len(set(dims)) != len(dims):
        return "dimension names are not unique"
    if not all(isinstance(d, str) for d in dims) or not all(
        isinstance(u, str) for u in units
    ):
        return "dims/units are not strings"
    return None


def region_inv(self):
    rec = core.rec()
    try:
        problem = _region_problem(self)
    except AttributeError:
        return True  # under construction
    rec.check(
        "inv.region",
        problem is None,
        problem=problem,
        pmin=getattr(self, "_pmin", None),
        pmax=getattr(self, "_pmax", None),
        dims=getattr(self, "_dims", None),
        units=getattr(self, "_units", None),
    )
    return True


def _mesh_problem(m):
    n = m._n
    reg = m._region
    if not isinstance(n, np.ndarray) or n.dtype.kind not in "iu":
        return f"n is not an integer array: {n!r}"
    if n.shape != reg._pmin.shape or not np.all(n > 0):
        return f"n={n!r} not positive / wrong length"
    rp = _region_problem(reg)
    if rp is not None:
        return "region: " + rp
    return None


def _subregion_problems(m):
    """C14: inside, on the lattice, whole cells, mesh's dims/units."""
    out = []
    reg = m._region
    n = m._n
    edges = reg._pmax - reg._pmin
    cell = edges / n
    # floating-point resolution of the coordinates, in cells
    res = 16 * np.finfo(float).eps * np.maximum(np.abs(reg._pmin), np.abs(reg._pmax))
    tol = np.maximum(1e-6, res / cell)
    for name, sr in m._subregions.items():
        rp = _region_problem(sr)
        if rp is not None:
            out.append((name, "region: " + rp))
            continue
        if sr._pmin.shape != reg._pmin.shape:
            out.append((name, "wrong number of dimensions"))
            continue
        lo = (sr._pmin - reg._pmin) / cell
        hi = (sr._pmax - reg._pmin) / cell
        if np.any(np.abs(lo - np.round(lo)) > tol) or np.any(
            np.abs(hi - np.round(hi)) > tol
        ):
            out.append((name, f"corners off the lattice: lo={lo} hi={hi}"))
        elif np.any(np.round(lo) < 0) or np.any(np.round(hi) > n):
            out.append((name, f"outside the mesh: lo={lo} hi={hi} n={n}"))
        elif np.any(np.round(hi) - np.round(lo) < 1):
            out.append((name, f"less than one cell: lo={lo} hi={hi}"))
        if tuple(sr._dims) != tuple(reg._dims):
            out.append((name, f"dims {sr._dims} != mesh dims {reg._dims}"))
        if tuple(sr._units) != tuple(reg._units):
            out.append((name, f"units {sr._units} != mesh units {reg._units}"))
    return out


def mesh_inv(self):
    rec = core.rec()
    try:
        problem = _mesh_problem(self)
        subs = self._subregions
    except AttributeError:
        return True
    rec.check(
        "inv.mesh",
        problem is None,
        problem=problem,
        n=getattr(self, "_n", None),
    )
    if problem is None and isinstance(subs, dict) and subs:
        try:
            probs = _subregion_problems(self)
        except Exception as e:  # noqa: BLE001 - malformed container: report
            probs = [("?", f"cannot evaluate: {e!r}")]
        rec.check(
            "inv.mesh.subregions",
            not probs,
            problems=probs,
            pmin=self._region._pmin,
            pmax=self._region._pmax,
            n=self._n,
        )
    return True


def field_inv(self):
    rec = core.rec()
    try:
        a, v, n, nv = self._array, self._valid, tuple(self._mesh._n), self._nvdim
    except AttributeError:
        return True
    ok_a = isinstance(a, np.ndarray) and a.shape == (*n, nv)
    rec.check(
        "inv.field.array",
        ok_a,
        shape=getattr(a, "shape", None),
        n=n,
        nvdim=nv,
    )
    ok_v = isinstance(v, np.ndarray) and v.shape == n and v.dtype == np.bool_
    rec.check(
        "inv.field.valid",
        ok_v,
        shape=getattr(v, "shape", None),
        dtype=str(getattr(v, "dtype", None)),
        n=n,
    )
    return True


# ---------------------------------------------------- operator wrappers (C03/C08)
_UNARY = ["__neg__", "__abs__"]
_UNARY_PROPS = ["norm", "orientation", "real", "imag", "conjugate", "phase", "abs"]
_BINARY = [
    "__rmatmul__",
    "__rand__",
    "__add__",
    "__radd__",
    "__sub__",
    "__rsub__",
    "__mul__",
    "__rmul__",
    "__truediv__",
    "__rtruediv__",
    "__pow__",
    "__rpow__",
    "dot",
    "__matmul__",
    "cross",
    "__and__",
    "angle",
    "__lshift__",
    "__rlshift__",
]


def _is_field(x, Field):
    return isinstance(x, Field)


def _check_result_validity(rec, name, res, operands, Field):
    if not _is_field(res, Field) or not operands:
        return
    try:
        rv = res._valid
        exp = operands[0]._valid
        for o in operands[1:]:
            if o._valid.shape == exp.shape:
                exp = np.logical_and(exp, o._valid)
        if exp.shape == rv.shape:
            rec.check(
                "amb.valid.propagation",
                bool(np.array_equal(rv.astype(bool), exp.astype(bool))),
                op=name,
                result_valid=rv,
                expected=exp,
            )
        if res is not operands[0]:
            for o in operands:
                if o is res:
                    continue
                rec.check(
                    "amb.valid.no_alias",
                    not np.shares_memory(rv, o._valid),
                    op=name,
                    note="result.valid shares memory with an operand's valid",
                )
    except AttributeError:
        return


def _wrap_op(Field, name, kind):
    orig = Field.__dict__.get(name)
    if orig is None:
        return False
    rec_get = core.rec

    if kind == "property":
        getter = orig.fget

        @functools.wraps(getter)
        def fget(self):
            rec = rec_get()
            before = core.field_digest(self)
            res = getter(self)
            rec.check(
                "amb.operand_untouched",
                core.field_digest(self) == before,
                op=name,
            )
            _check_result_validity(rec, name, res, [self], Field)
            return res

        setattr(Field, name, property(fget, orig.fset, orig.fdel, orig.__doc__))
        return True

    @functools.wraps(orig)
    def wrapper(self, *args, **kwargs):
        rec = rec_get()
        fields = [self] + [a for a in args if _is_field(a, Field)]
        before = [core.field_digest(f) for f in fields]
        res = orig(self, *args, **kwargs)
        for f, d in zip(fields, before):
            rec.check(
                "amb.operand_untouched",
                core.field_digest(f) == d,
                op=name,
                operand_is_self=f is self,
            )
        if res is not NotImplemented:
            _check_result_validity(rec, name, res, fields, Field)
        return res

    setattr(Field, name, wrapper)
    return True


def _wrap_ufunc(Field):
    orig = Field.__dict__.get("__array_ufunc__")
    if orig is None:
        return False

    @functools.wraps(orig)
    def wrapper(self, ufunc, method, *inputs, **kwargs):
        rec = core.rec()
        out = kwargs.get("out") or ()
        fields = [
            x
            for x in inputs
            if _is_field(x, Field) and not any(x is o for o in out)
        ]
        before = [core.field_digest(f) for f in fields]
        res = orig(self, ufunc, method, *inputs, **kwargs)
        for f, d in zip(fields, before):
            rec.check(
                "amb.operand_untouched",
                core.field_digest(f) == d,
                op=f"ufunc:{getattr(ufunc, '__name__', ufunc)}",
            )
        return res

    Field.__array_ufunc__ = wrapper
    return True


# ------------------------------------------------- lattice contracts (C01, ambient)
def _wrap_lattice(Mesh):
    """Passive post-conditions on Mesh.index2point / point2index (sound for any use)."""
    eps = np.finfo(float).eps
    i2p, p2i = Mesh.index2point, Mesh.point2index

    @functools.wraps(i2p)
    def index2point(self, index, /):
        res = i2p(self, index)
        rec = core.rec()
        try:
            reg = self._region
            pmin, pmax, n = reg._pmin.astype(float), reg._pmax.astype(float), self._n
            cell = (pmax - pmin) / n
            exp = pmin + (np.atleast_1d(np.asarray(index)) + 0.5) * cell
            tol = 16 * eps * np.maximum(np.abs(pmin), np.abs(pmax)) + 1e-12 * cell
            ok = np.shape(res) == exp.shape and bool(np.all(np.abs(res - exp) <= tol))
        except Exception as e:  # noqa: BLE001 - malformed state is the invariants' business
            rec.notes["amb.index2point.unjudged"] += 1
            return res
        rec.check("amb.index2point.formula", ok, index=index, got=res, expected=exp)
        return res

    @functools.wraps(p2i)
    def point2index(self, point, /):
        res = p2i(self, point)
        rec = core.rec()
        try:
            reg = self._region
            pmin, pmax, n = reg._pmin.astype(float), reg._pmax.astype(float), self._n
            cell = (pmax - pmin) / n
            p = np.atleast_1d(np.asarray(point, dtype=float))
            idx = np.asarray(res)
            band = 4 * reg._tolerance_factor * (np.min(pmax - pmin) + np.abs(p)) + 8 * eps * np.abs(p)
            lo, hi = pmin + idx * cell, pmin + (idx + 1) * cell
            ok = (idx.shape == n.shape and bool(np.all(idx >= 0) and np.all(idx < n))
                  and bool(np.all(p >= lo - band - 4 * eps * np.abs(lo))
                           and np.all(p <= hi + band + 4 * eps * np.abs(hi))))
        except Exception:  # noqa: BLE001
            rec.notes["amb.point2index.unjudged"] += 1
            return res
        rec.check("amb.point2index.cell_contains_point", ok, point=point, got=res,
                  pmin=pmin, pmax=pmax, n=n)
        return res

    Mesh.index2point = index2point
    Mesh.point2index = point2index
    return 2


# -------------------------------------------------------------------------- main
def attach_all(rec=None):
    """Attach everything once; returns the list of attached monitor names."""
    global _ATTACHED
    if os.environ.get(dfmon.GUARD) != "1":
        raise RuntimeError(f"{dfmon.GUARD}=1 is required to attach monitors")
    if _ATTACHED:
        return _ATTACHED
    dfmon.add_deps_path()
    import icontract

    import discretisedfield as df

    attached = []
    icontract.invariant(region_inv, error=MonitorBroken)(df.Region)
    attached.append("inv.region")
    icontract.invariant(mesh_inv, error=MonitorBroken)(df.Mesh)
    attached += ["inv.mesh", "inv.mesh.subregions"]
    icontract.invariant(field_inv, error=MonitorBroken)(df.Field)
    attached += ["inv.field.array", "inv.field.valid"]

    n_ops = 0
    for name in _UNARY + _BINARY:
        n_ops += _wrap_op(df.Field, name, "method")
    for name in _UNARY_PROPS:
        if isinstance(df.Field.__dict__.get(name), property):
            n_ops += _wrap_op(df.Field, name, "property")
    n_ops += _wrap_ufunc(df.Field)
    n_ops += _wrap_lattice(df.Mesh)
    attached += ["amb.index2point.formula", "amb.point2index.cell_contains_point"]
    attached += ["amb.operand_untouched", "amb.valid.propagation", "amb.valid.no_alias"]
    _ATTACHED = attached + [f"operator_wrappers={n_ops}"]
    return _ATTACHED
