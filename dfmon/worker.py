"""One worker process: runs a shard of cases of one workload with the monitors on.

    python -m dfmon.worker --prop C01 --tier quick --seed 0 --cases 0:300:1 --out f.json

The parent (``/verif/check``) starts this with subprocess.run(timeout=...).
"""

import argparse
import faulthandler
import importlib
import json
import os
import sys
import time
import traceback
import warnings


def parse_cases(spec):
    """'a:b:step' or comma separated explicit indices 'i,j,k'."""
    if spec.startswith("mix:"):
        # shard k of W over range(N), mixed so that every worker sees every residue
        # class of i (workloads dispatch their case kinds on i % m)
        _, k, n, w = spec.split(":")
        k, n, w = int(k), int(n), int(w)
        return [i for i in range(n) if (i + i // w) % w == k]
    if ":" in spec:
        a, b, s = (int(x) for x in spec.split(":"))
        return range(a, b, s)
    return [int(x) for x in spec.split(",") if x != ""]


def main(argv=None):
    ap = argparse.ArgumentParser()
    ap.add_argument("--prop", required=True)
    ap.add_argument("--tier", default="quick")
    ap.add_argument("--seed", type=int, default=0)
    ap.add_argument("--cases", required=True)
    ap.add_argument("--out", required=True)
    ap.add_argument("--budget", type=float, default=1e9, help="soft wall budget (s)")
    args = ap.parse_args(argv)

    faulthandler.enable()
    warnings.simplefilter("ignore")
    os.environ.setdefault("MPLBACKEND", "Agg")

    import dfmon
    from dfmon import core

    dfmon.add_deps_path()
    import numpy as np

    np.seterr(all="ignore")

    t0 = time.time()
    import discretisedfield as df

    repo_file = os.path.realpath(df.__file__)
    if not repo_file.startswith(os.path.realpath(dfmon.REPO_ROOT) + os.sep):
        print(f"worker: discretisedfield imported from {repo_file}", file=sys.stderr)
        return 3

    rec = core.set_recorder(core.Recorder(args.prop, args.tier, args.seed))
    from dfmon import verdict

    rec.classifier = verdict.make_classifier()
    wl = importlib.import_module(f"workloads.{args.prop}")

    from dfmon import anchors, attach

    attached = attach.attach_all(rec)
    anchor_mon = anchors.start(wl.META.get("anchor_files"))

    cases = parse_cases(args.cases)
    try:
        from workloads import gen as wl_gen
    except Exception:  # noqa: BLE001
        wl_gen = None
    skipped = 0
    setup = getattr(wl, "setup", None)
    if setup:
        setup(args.tier)
    for i in cases:
        if time.time() - t0 > args.budget:
            skipped += 1
            continue
        rec.case = i
        rng = np.random.default_rng([args.seed, i])
        ctx = core.Ctx(rec, rng, i, args.tier)
        if wl_gen is not None:
            wl_gen.set_history_rng(np.random.default_rng([args.seed, i, 7919]))
        try:
            wl.run_case(ctx, i)
        except Exception as e:  # noqa: BLE001
            # the property's call chain broke in a place the workload expected to
            # succeed: recorded as a violation with the trace (see DESIGN 1).
            rec.check(
                "harness.uncaught",
                False,
                exc=e,
                tb=traceback.format_exc(limit=-6),
            )
        else:
            rec.evals["harness.uncaught"] += 1
        rec.cases += 1
    rec.case = None

    if wl_gen is not None:
        for k, v in getattr(wl_gen, "HIST_EVENTS", {}).items():
            rec.events[k] += v
    out = rec.dump()
    out["attached"] = attached
    out["anchors"] = anchors.stop(anchor_mon)
    out["skipped_for_budget"] = skipped
    out["wall_s"] = time.time() - t0
    out["repo_file"] = repo_file
    with open(args.out, "w") as fh:
        json.dump(out, fh)
    return 0


if __name__ == "__main__":
    sys.exit(main())
