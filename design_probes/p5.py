import warnings, numpy as np, os, itertools
import discretisedfield as df
np.seterr(all='ignore')
# mesh[Region] vertex aligned boxes
bad = 0; tot = 0; ex=None; exc=0
for n in range(1, 14):
  for L in (1.0, 0.7, 3e-9, 100e-9, 1e6/3):
    for off in (0.0, 0.1, -0.3e-9, 5.0, -L/2):
      mesh = df.Mesh(p1=off, p2=off+L, n=n)
      v = mesh.vertices.x
      for i in range(n):
        for j in range(i+1, n+1):
          tot += 1
          reg = df.Region(p1=float(v[i]), p2=float(v[j]))
          try:
            sub = mesh[reg]
          except Exception as e:
            exc += 1
            if ex is None: ex = ('EXC', n, L, off, i, j, type(e).__name__, str(e)[:80])
            continue
          if sub.n[0] != j - i:
            bad += 1
            if ex is None: ex = (n, L, off, i, j, sub.n, sub.region.pmin, sub.region.pmax)
print('getitem vertex-aligned wrong', bad, 'exceptions', exc, 'of', tot, ex)
