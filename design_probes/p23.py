import warnings, numpy as np
warnings.simplefilter('ignore')
import discretisedfield as df
import discretisedfield.tools as dft
rng = np.random.default_rng(13)
for t in range(12):
    n = rng.integers(10,25,2); cell = rng.uniform(0.5,2,2)*10.0**rng.integers(-9,1)
    p1 = rng.uniform(-1,1,2)*cell*n
    mesh = df.Mesh(p1=tuple(p1.tolist()), p2=tuple((p1+cell*n).tolist()), n=tuple(int(k) for k in n))
    c = mesh.region.center + rng.uniform(-0.5,0.5,2)*cell; Rr = 0.4*mesh.region.edges.min()
    Q = int(rng.choice([1,-1,2,-2,3])); pol = int(rng.choice([1,-1])); hel = rng.uniform(0,2*np.pi)
    def val(p):
        x,y = p[0]-c[0], p[1]-c[1]; r = np.hypot(x,y); phi=np.arctan2(y,x)
        th = np.pi*(1-r/Rr) if r<Rr else 0.0
        return (np.sin(th)*np.cos(Q*phi+hel), np.sin(th)*np.sin(Q*phi+hel), pol*np.cos(th))
    f = df.Field(mesh, nvdim=3, value=val)
    print(n, Q, pol, 'BL', dft.topological_charge(f, method='berg-luescher'), 'cont', dft.topological_charge(f), 'expected', -Q*pol)
