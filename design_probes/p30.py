import warnings, numpy as np, itertools, collections, tempfile, os
warnings.simplefilter('ignore')
import discretisedfield as df
rng = np.random.default_rng(18)
bad = {}
def note(k, *a): bad.setdefault(k, []).append(a)
for t in range(2000):
    nd = int(rng.integers(1,4)); n = rng.integers(1,6,nd); ex = int(rng.integers(-9,3)); cell = rng.uniform(0.5,2,nd)*10.0**ex; offc = int(rng.choice([0,1,10,1000])); p1 = rng.uniform(-1,1,nd)*cell*offc
    m1 = df.Mesh(p1=tuple(p1.tolist()), p2=tuple((p1+cell*n).tolist()), n=tuple(int(k) for k in n))
    # aligned: shift by whole cells
    sh = rng.integers(-5,6,nd); n2 = rng.integers(1,6,nd)
    q1 = p1 + sh*m1.cell
    try:
        m2 = df.Mesh(p1=tuple(q1.tolist()), p2=tuple((q1+m1.cell*n2).tolist()), n=tuple(int(k) for k in n2))
    except Exception as e: note('ctor', str(e)[:50]); continue
    if not m1.is_aligned(m2): note('aligned_reported_false', ex, offc)
    # misaligned by fraction 0.1..0.9 of a cell in one axis
    ax = int(rng.integers(0,nd)); fr = rng.uniform(0.1,0.9)
    q2 = q1.copy(); q2[ax] += fr*m1.cell[ax]
    m3 = df.Mesh(p1=tuple(q2.tolist()), p2=tuple((q2+m1.cell*n2).tolist()), n=tuple(int(k) for k in n2))
    if m1.is_aligned(m3): note('misaligned_reported_true', ex, offc, fr)
    # different cell (by 10%+) same origin
    c3 = m1.cell.copy(); c3[ax] *= rng.uniform(1.1, 2)
    m4 = df.Mesh(p1=tuple(p1.tolist()), p2=tuple((p1+c3*n).tolist()), n=tuple(int(k) for k in n))
    if m1.is_aligned(m4): note('diffcell_reported_true', ex, offc)
print({k:(len(v), collections.Counter((x[0],x[1]) for x in v).most_common(8)) for k,v in sorted(bad.items())})
