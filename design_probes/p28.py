import sys, time, warnings
sys.path.insert(0, '/tmp/probe/deps')
warnings.simplefilter('ignore')
import numpy as np, icontract
import discretisedfield as df
class InvariantBroken(Exception): pass
class PostBroken(Exception): pass
counts = {'inv':0, 'post':0}
def region_ordered(self):
    counts['inv'] += 1
    return bool(np.all(self._pmin < self._pmax)) and len(self._dims)==len(self._pmin)==len(self._units)
t0=time.time()
try:
    R = icontract.invariant(region_ordered, error=InvariantBroken)(df.Region)
    print('decorated', R is df.Region)
except Exception as e:
    print('decorate failed', type(e).__name__, e)
r = df.Region(p1=(0,0,0), p2=(1,2,3))
print('after ctor inv count', counts)
_ = r.pmin; _ = r.edges; _ = r.center
print('after 3 property reads', counts)
r.translate((1,1,1)); print('after translate copy', counts)
try:
    r.scale(-1, inplace=True); print('scale -1 inplace passed?!', r.pmin, r.pmax)
except InvariantBroken as e: print('InvariantBroken fired:', str(e)[:200])
# does Mesh use the decorated Region? df.Region is same class object mutated in place
m = df.Mesh(p1=(0,0,0), p2=(1,2,3), n=(2,2,2))
c0 = dict(counts)
t=time.time()
for i in range(2000): m.index2point((1,1,1))
print('2000 index2point', time.time()-t, {k:counts[k]-c0[k] for k in counts})
# postcondition on point2index
def idx_in_range(self, result):
    counts['post'] += 1
    return all(0 <= i < n for i, n in zip(result, self.n))
try:
    df.Mesh.point2index = icontract.ensure(idx_in_range, error=PostBroken)(df.Mesh.point2index)
    print(m.point2index((0.3,0.3,0.3)), counts)
except Exception as e: print('ensure failed', type(e).__name__, e)
