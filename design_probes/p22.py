import warnings, numpy as np, os, itertools, tempfile, collections, copy
warnings.simplefilter('ignore')
import discretisedfield as df
import discretisedfield.tools as dft
from scipy.spatial.transform import Rotation
rng = np.random.default_rng(13)
bad = {}
def note(k, *a): bad.setdefault(k, []).append(a)
def skyrmion(mesh, Q=1, R=None, pol=1):
    c = mesh.region.center; Rr = R or 0.25*mesh.region.edges.min()
    def val(p):
        x,y = p[0]-c[0], p[1]-c[1]; r = np.hypot(x,y); phi=np.arctan2(y,x)
        th = 2*np.arctan2(Rr, r) if r>0 else np.pi   # theta(0)=pi, theta(inf)=0
        return (np.sin(th)*np.cos(Q*phi), np.sin(th)*np.sin(Q*phi), pol*np.cos(th))
    return val
for t in range(40):
    n = rng.integers(12,25,2); cell = rng.uniform(0.5,2,2)*10.0**rng.integers(-9,1)
    p1 = rng.uniform(-1,1,2)*cell*n
    mesh = df.Mesh(p1=tuple(p1.tolist()), p2=tuple((p1+cell*n).tolist()), n=tuple(int(k) for k in n))
    Q = int(rng.choice([1,-1,2]))
    f = df.Field(mesh, nvdim=3, value=skyrmion(mesh, Q=Q), vdim_mapping={'x':'x','y':'y','z':'z'})
    for method in ('continuous','berg-luescher'):
        q0 = dft.topological_charge(f, method=method)
        if method=='berg-luescher' and abs(q0-round(q0))>1e-9: note('bl_integer', q0)
        # global rotation of vectors
        Rm = Rotation.random(random_state=int(rng.integers(1e9))).as_matrix()
        fr = df.Field(mesh, nvdim=3, value=f.array@Rm.T)
        q1 = dft.topological_charge(fr, method=method)
        if abs(q1-q0) > 1e-8*max(1,abs(q0)): note('rot_inv', method, q0, q1)
        # rescale lengths
        fs = df.Field(mesh, nvdim=3, value=f.array*rng.uniform(0.1,1e6,size=(*n,1)))
        q2 = dft.topological_charge(fs, method=method)
        if abs(q2-q0) > 1e-8*max(1,abs(q0)): note('scale_inv', method, q0, q2)
        # mesh rescale/translate
        m2 = mesh.scale(float(rng.uniform(0.1,10))).translate(tuple(rng.normal(size=2).tolist()))
        fm = df.Field(m2, nvdim=3, value=f.array)
        q3 = dft.topological_charge(fm, method=method)
        if abs(q3-q0) > 1e-8*max(1,abs(q0)): note('mesh_inv', method, q0, q3)
        # anisotropic scale
        m3 = mesh.scale((float(rng.uniform(0.1,10)), float(rng.uniform(0.1,10))))
        q3b = dft.topological_charge(df.Field(m3, nvdim=3, value=f.array), method=method)
        if abs(q3b-q0) > 1e-8*max(1,abs(q0)): note('mesh_aniso_inv', method, q0, q3b)
        # reversal
        q4 = dft.topological_charge(-f, method=method)
        if abs(q4+q0) > 1e-8*max(1,abs(q0)): note('reverse', method, q0, q4)
        # quarter-turn of sample
        k = int(rng.integers(1,4))
        fq = f.rotate90('x','y',k=k)
        q5 = dft.topological_charge(fq, method=method)
        if abs(q5-q0) > 1e-8*max(1,abs(q0)): note('rot90', method, q0, q5, k)
        # uniform
        u = df.Field(mesh, nvdim=3, value=tuple(rng.normal(size=3).tolist()))
        if abs(dft.topological_charge(u, method=method))>1e-12: note('uniform', method)
    if t<3: print('Q', Q, dft.topological_charge(f), dft.topological_charge(f, method='berg-luescher'))
print({k:(len(v), v[0]) for k,v in bad.items()})
# Bloch point
for t in range(10):
    n = rng.integers(6,12,3); cell = rng.uniform(0.5,2,3)
    mesh = df.Mesh(p1=(0,0,0), p2=tuple((cell*n).tolist()), n=tuple(int(k) for k in n))
    c = mesh.region.center + rng.uniform(-0.2,0.2,3)*cell  # avoid exactly on centre
    f = df.Field(mesh, nvdim=3, value=lambda p: tuple((np.array(p)-c).tolist()), norm=1)
    for d in 'xyz':
        r = dft.count_bps(f, d); r2 = dft.count_bps(-f, d)
        if not (r['bp_number']==1 and r['bp_number_tt']==1 and r['bp_number_hh']==0): note('bp', d, r, n, cell)
        if not (r2['bp_number']==1 and r2['bp_number_hh']==1 and r2['bp_number_tt']==0): note('bp_rev', d, r2)
print({k:(len(v), v[0]) for k,v in bad.items() if k.startswith('bp')})
