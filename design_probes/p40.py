import warnings, numpy as np, itertools
warnings.simplefilter('ignore')
import discretisedfield as df
bad=[]
def snap(r): return (r.pmin.copy(), r.pmax.copy(), r.units, r.dims)
def same(a,b): return np.array_equal(a[0],b[0]) and np.array_equal(a[1],b[1]) and a[2]==b[2] and a[3]==b[3] and a[0].dtype==b[0].dtype
calls = [
 ('translate', dict(vector=(1,2))), ('translate', dict(vector='abc')), ('translate', dict(vector=None)), ('translate', dict(vector=(1,'a',2))), ('translate', dict(vector=(1j,0,0))), ('translate', dict(vector=[[1,2,3]])), ('translate', dict(vector=5)),
 ('scale', dict(factor=(1,2))), ('scale', dict(factor='a')), ('scale', dict(factor=None)), ('scale', dict(factor=0)), ('scale', dict(factor=(1,0,1))), ('scale', dict(factor=(1,'a',1))), ('scale', dict(factor=2, reference_point=(1,2))), ('scale', dict(factor=2, reference_point='abc')), ('scale', dict(factor=2, reference_point=(1,'a',3))), ('scale', dict(factor=1j)), ('scale', dict(factor=float('nan'))), ('scale', dict(factor=float('inf'))),
 ('rotate90', dict(ax1='x', ax2='x')), ('rotate90', dict(ax1='x', ax2='q')), ('rotate90', dict(ax1='x', ax2='y', k=1.5)), ('rotate90', dict(ax1='x', ax2='y', reference_point=(1,2))), ('rotate90', dict(ax1='x', ax2='y', reference_point='abc')), ('rotate90', dict(ax1='x', ax2='y', reference_point=5)), ('rotate90', dict(ax1='x', ax2='y', reference_point=('a','b','c'))),
]
for name, kw in calls:
    for inplace in (False, True):
        r = df.Region(p1=(0,0,0), p2=(10,8,6), units=['a','b','c'])
        before = snap(r)
        try:
            out = getattr(r, name)(**kw, inplace=inplace)
            ok = bool(np.all(out.pmin < out.pmax)) and np.isrealobj(out.pmin)
            print(f'{name:9s} {str(kw):60s} inplace={inplace!s:5s} ACCEPTED', 'valid-state' if ok else 'BROKEN-STATE', out.pmin, out.pmax)
        except Exception as e:
            ch = '' if same(before, snap(r)) else ' OBJECT CHANGED'
            print(f'{name:9s} {str(kw):60s} inplace={inplace!s:5s} rejected {type(e).__name__}{ch}')
