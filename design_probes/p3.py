import warnings, numpy as np, os
import discretisedfield as df
# region rotate90 inplace units
r = df.Region(p1=(0,0,0), p2=(10,8,6), units=['a','b','c'])
c = r.rotate90('x','y'); 
r2 = df.Region(p1=(0,0,0), p2=(10,8,6), units=['a','b','c']); ret = r2.rotate90('x','y', inplace=True)
print('copy units', c.units, 'inplace units', r2.units, 'equal', c == r2, ret is r2, c.pmin, r2.pmin)
# scale negative
r = df.Region(p1=(0,0,0), p2=(10,8,6))
c = r.scale(-2)
r2 = df.Region(p1=(0,0,0), p2=(10,8,6)); r2.scale(-2, inplace=True)
print('scale -2 copy', c.pmin, c.pmax, 'inplace', r2.pmin, r2.pmax, r2.edges)
try:
    c = r.scale(0); print('scale 0 copy accepted', c.pmin, c.pmax)
except Exception as e: print('scale 0 copy rejected', type(e).__name__)
r2 = df.Region(p1=(0,0,0), p2=(10,8,6)); 
try:
    r2.scale(0, inplace=True); print('scale 0 inplace accepted', r2.pmin, r2.pmax)
except Exception as e: print('scale 0 inplace rejected', type(e).__name__)
r2 = df.Region(p1=(0,0,0), p2=(10,8,6)); 
try:
    r2.scale((1,0,1), inplace=True); print('scale (1,0,1) inplace accepted', r2.pmin, r2.pmax)
except Exception as e: print('scale (1,0,1) inplace rejected', type(e).__name__)

# mesh scale negative inplace
m = df.Mesh(p1=(0,0,0), p2=(10,8,6), n=(5,4,3), subregions={'s': df.Region(p1=(0,0,0), p2=(4,4,4))})
m.scale(-1, inplace=True); print('mesh inplace -1: cell', m.cell, m.region.pmin, m.region.pmax, m.subregions)
m = df.Mesh(p1=(0,0,0), p2=(10,8,6), n=(5,4,3), subregions={'s': df.Region(p1=(0,0,0), p2=(4,4,4))})
c = m.scale(-1); print('mesh copy -1: cell', c.cell, c.region.pmin, c.region.pmax, c.subregions)

# translate with bad args in place: complex element
r = df.Region(p1=(0,0,0), p2=(10,8,6))
try:
    r.translate((1j,0,0), inplace=True); print('translate complex inplace accepted', r.pmin)
except Exception as e: print('translate complex rejected', type(e).__name__, e)
try:
    c = r.translate((1j,0,0)); print('translate complex copy accepted', c.pmin)
except Exception as e: print('translate complex copy rejected', type(e).__name__, e)
# nan
r = df.Region(p1=(0,0,0), p2=(10,8,6))
try:
    r.translate((np.nan,0,0), inplace=True); print('translate nan inplace accepted', r.pmin)
except Exception as e: print('translate nan rejected', type(e).__name__, e)
