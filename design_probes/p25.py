import warnings, numpy as np, itertools
warnings.simplefilter('ignore')
import matplotlib; matplotlib.use('Agg')
import matplotlib.pyplot as plt
import matplotlib.axes
import discretisedfield as df
rng = np.random.default_rng(15)
calls = []
def spy(name):
    orig = getattr(matplotlib.axes.Axes, name)
    def wrapper(self, *a, **k):
        calls.append((name, a, k)); return orig(self, *a, **k)
    setattr(matplotlib.axes.Axes, name, wrapper)
for nm in ('imshow','quiver','contour'): spy(nm)
bad = {}
def note(k, *a): bad.setdefault(k, []).append(a)
for t in range(30):
    n = rng.integers(2,6,2); scale = 10.0**rng.integers(-9,4); cell = rng.uniform(0.5,2,2)*scale; p1 = rng.uniform(-3,3,2)*cell
    dims=['p','q']; units=['m','s']
    mesh = df.Mesh(region=df.Region(p1=p1, p2=p1+cell*n, dims=dims, units=units), n=n)
    valid = rng.random(n)>0.3
    # scalar
    f = df.Field(mesh, nvdim=1, value=rng.normal(size=(*n,1)), valid=valid)
    before = (f.array.copy(), f.valid.copy(), mesh.region.pmin.copy(), mesh.region.pmax.copy())
    calls.clear(); fig, ax = plt.subplots(); f.mpl.scalar(ax=ax)
    c = [x for x in calls if x[0]=='imshow'][0]
    img = np.asarray(c[1][0]); ext = c[2]['extent']; mult = mesh.region.multiplier
    exp = np.where(valid, f.array[...,0], np.nan).T
    if not np.array_equal(img, exp, equal_nan=True): note('scalar_img')
    if c[2].get('origin')!='lower': note('origin')
    if not np.allclose(ext, [mesh.region.pmin[0]/mult, mesh.region.pmax[0]/mult, mesh.region.pmin[1]/mult, mesh.region.pmax[1]/mult], rtol=1e-12): note('extent', ext)
    import ubermagutil.units as uu
    if ax.get_xlabel() != f"p ({uu.rsi_prefixes[mult]}m)" or ax.get_ylabel() != f"q ({uu.rsi_prefixes[mult]}s)": note('labels', ax.get_xlabel(), ax.get_ylabel())
    if not (np.array_equal(before[0], f.array) and np.array_equal(before[1], f.valid)): note('mutated')
    plt.close(fig)
    # vector
    vd=['a','b','c']; perm = rng.permutation(3); mapping = {vd[j]: ['p','q','w'][perm[j]] for j in range(3)}
    v = df.Field(mesh, nvdim=3, value=rng.normal(size=(*n,3)), vdims=vd, vdim_mapping=mapping, valid=valid)
    calls.clear(); fig, ax = plt.subplots(); v.mpl.vector(ax=ax)
    c = [x for x in calls if x[0]=='quiver'][0]
    X,Y,U,V,C = c[1]
    rm = {val:key for key,val in mapping.items()}
    if not np.allclose(X, mesh.cells[0]/mult) or not np.allclose(Y, mesh.cells[1]/mult): note('quiver_xy')
    eu = np.where(valid, v.array[..., vd.index(rm['p'])], np.nan).T; ev = np.where(valid, v.array[..., vd.index(rm['q'])], np.nan).T
    if not np.array_equal(U, eu, equal_nan=True) or not np.array_equal(V, ev, equal_nan=True): note('quiver_uv')
    if not np.array_equal(C, v.array[..., vd.index(rm['w'])].T): note('quiver_c')
    plt.close(fig)
    calls.clear(); fig, ax = plt.subplots(); f.mpl.contour(ax=ax)
    c = [x for x in calls if x[0]=='contour'][0]
    if not np.array_equal(c[1][2], exp, equal_nan=True): note('contour_z')
    plt.close(fig)
print({k:(len(v), v[0]) for k,v in bad.items()})
