import warnings, numpy as np, os, itertools, tempfile, collections
warnings.simplefilter('ignore')
import discretisedfield as df
rng = np.random.default_rng(11)
bad = {}
def note(k, *a): bad.setdefault(k, []).append(a)
tmp = tempfile.mkdtemp()
for t in range(300):
    nd = int(rng.integers(1,5)); n = rng.integers(1,5,nd)
    intc = rng.random()<0.5
    if intc:
        cell = rng.integers(1,4,nd); p1 = rng.integers(-5,5,nd)
        if rng.random()<0.5: cell = cell*2  # allow half-integer vertices when n doubled? keep
    else:
        cell = rng.uniform(0.5,3,nd)*10.0**rng.integers(-9,3); p1 = rng.uniform(-1,1,nd)*cell*n*rng.choice([0,1,50])
    dims = [str(x) for x in rng.permutation(['p','q','r','s'])[:nd]]; units=[f'u{i}' for i in range(nd)]
    region = df.Region(p1=p1, p2=p1+cell*n, dims=dims, units=units, tolerance_factor=float(rng.choice([1e-12,1e-10])))
    n_mesh = n*2 if intc and rng.random()<0.5 else n
    mesh0 = df.Mesh(region=region, n=n_mesh)
    sr = {}
    for j in range(rng.integers(0,3)):
        v = mesh0.vertices
        lo = np.array([rng.integers(0,k) for k in n_mesh]); hi = np.array([rng.integers(l+1,k+1) for l,k in zip(lo,n_mesh)])
        sr[f's{j}'] = df.Region(p1=[v[d][lo[d]].item() for d in range(nd)], p2=[v[d][hi[d]].item() for d in range(nd)])
    bc = ''.join(d for d in dims if rng.random()<0.3)
    try: mesh = df.Mesh(region=region, n=n_mesh, subregions=sr, bc=bc)
    except Exception as e: mesh = df.Mesh(region=region, n=n_mesh, bc=bc)
    nv = int(rng.integers(1,5))
    vd = [f'c{i}' for i in range(nv)] if rng.random()<0.7 and nv>1 else None
    unit = [None,'A/m','T'][int(rng.integers(0,3))]
    kind = rng.choice(['float','complex','int'])
    arr = rng.normal(size=(*n_mesh,nv))
    if kind=='complex': arr = arr + 1j*rng.normal(size=arr.shape)
    if kind=='int': arr = rng.integers(-5,5,size=arr.shape)
    f = df.Field(mesh, nvdim=nv, value=arr, vdims=vd, unit=unit, valid=rng.random(n_mesh)>0.3, dtype=arr.dtype)
    fn = os.path.join(tmp, f't{t}.h5')
    try:
        f.to_file(fn); r = df.Field.from_file(fn)
    except Exception as e:
        note('h5_exc', type(e).__name__, str(e)[:100], intc, {k:(v.pmin,v.pmax) for k,v in mesh.subregions.items()}, mesh.region.pmin, mesh.cell); continue
    if not (r == f): note('h5_eq')
    if not (np.array_equal(r.mesh.region.pmin, mesh.region.pmin) and np.array_equal(r.mesh.region.pmax, mesh.region.pmax)): note('h5_corners')
    if r.mesh.region.dims != mesh.region.dims or r.mesh.region.units != mesh.region.units: note('h5_dims')
    if r.mesh.region.tolerance_factor != mesh.region.tolerance_factor: note('h5_tol')
    if r.mesh.bc != mesh.bc: note('h5_bc')
    if r.unit != unit: note('h5_unit', r.unit, unit)
    if r.vdims != f.vdims: note('h5_vdims', r.vdims, f.vdims)
    if not np.array_equal(r.valid, f.valid): note('h5_valid')
    if np.iscomplexobj(r.array) != np.iscomplexobj(f.array): note('h5_complex')
    if r.array.dtype != f.array.dtype: note('h5_dtype', r.array.dtype, f.array.dtype)
    if set(r.mesh.subregions) != set(mesh.subregions): note('h5_sub')
    else:
        for k in mesh.subregions:
            if r.mesh.subregions[k] != mesh.subregions[k]: note('h5_subval', intc, r.mesh.subregions[k].pmin, mesh.subregions[k].pmin); break
print({k:(len(v), v[0]) for k,v in bad.items()})
import shutil; shutil.rmtree(tmp)
