import sys, json, atexit, collections
sys.path.insert(0, '/tmp/probe/deps')
import numpy as np, icontract
import discretisedfield as df
LOG = []; CNT = collections.Counter()
class Broken(Exception): pass
def region_inv(self):
    CNT['region'] += 1
    try:
        ok = bool(np.all(self._pmin < self._pmax)) and len(self._dims)==len(self._pmin)==len(self._units) and len(set(self._dims))==len(self._dims)
    except Exception as e:
        ok = False
    if not ok: LOG.append(('region_inv', repr((self._pmin, self._pmax, self._dims, self._units))))
    return True
def mesh_inv(self):
    CNT['mesh'] += 1
    try:
        n = self._n
        ok = n.dtype.kind=='i' and bool(np.all(n>0)) and len(n)==len(self._region._pmin)
        if ok and hasattr(self, '_subregions'):
            reg = self._region; cell = (reg._pmax-reg._pmin)/n
            for k, sr in self._subregions.items():
                lo = (sr._pmin-reg._pmin)/cell; hi = (sr._pmax-reg._pmin)/cell
                if not (np.all(np.abs(lo-np.round(lo))<1e-6) and np.all(np.abs(hi-np.round(hi))<1e-6) and np.all(np.round(hi)-np.round(lo)>=1) and np.all(np.round(lo)>=0) and np.all(np.round(hi)<=n) and sr._dims==reg._dims and sr._units==reg._units):
                    ok = False; LOG.append(('mesh_subregion_inv', k, repr((sr._pmin, sr._pmax, reg._pmin, reg._pmax, n, sr._dims, reg._dims, sr._units, reg._units))))
    except AttributeError:
        return True   # during construction
    if not ok: LOG.append(('mesh_inv', repr(self._n)))
    return True
def field_inv(self):
    CNT['field'] += 1
    try:
        a = self._array; v = self._valid; n = tuple(self._mesh._n)
    except AttributeError:
        return True
    if a.shape != (*n, self._nvdim): LOG.append(('field_shape', a.shape, n, self._nvdim))
    if v.shape != n or v.dtype != bool: LOG.append(('field_valid', v.shape, str(v.dtype), n))
    return True
icontract.invariant(region_inv, error=Broken)(df.Region)
icontract.invariant(mesh_inv, error=Broken)(df.Mesh)
icontract.invariant(field_inv, error=Broken)(df.Field)
def dump():
    json.dump({'counts': CNT, 'log': [list(map(str,x)) for x in LOG[:200]], 'nlog': len(LOG), 'kinds': collections.Counter(x[0] for x in LOG)}, open('/tmp/probe/amb/out.%d.json' % __import__('os').getpid(), 'w'))
atexit.register(dump)
