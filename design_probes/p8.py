import warnings, numpy as np, os, itertools
warnings.simplefilter('ignore')
import discretisedfield as df
for nd in (1,2,3,4):
    mesh = df.Mesh(p1=(0,)*nd, p2=(4,)*nd, n=(4,)*nd)
    for nv in (1,2):
        f = df.Field(mesh, nvdim=nv, value=lambda p: [np.sum(p)]*nv)
        try:
            l = f.line(p1=(0.2,)*nd, p2=(3.9,)*nd, n=5)
            print(nd, nv, 'line ok', list(l.data.columns), l.n, l.dim, l.data['r'].values[:3])
        except Exception as e:
            print(nd, nv, 'line FAIL', type(e).__name__, e)
# periodic masked shift-commutation
mesh = df.Mesh(p1=0, p2=5, n=5, bc='x')
rng = np.random.default_rng(0)
vals = rng.normal(size=5)
valid = np.array([True, True, False, True, True])
for order in (1,2):
    base = df.Field(mesh, nvdim=1, value=vals.reshape(5,1), valid=valid).diff('x', order=order).array[:,0]
    for s in range(1,5):
        fs = df.Field(mesh, nvdim=1, value=np.roll(vals, s).reshape(5,1), valid=np.roll(valid, s)).diff('x', order=order).array[:,0]
        print('order', order, 'shift', s, 'commutes', np.allclose(np.roll(base, s), fs), np.roll(base,s), fs)
