import warnings, numpy as np, os, itertools
warnings.simplefilter('ignore')
import discretisedfield as df
import discretisedfield.tools as dft
from discretisedfield.tools.tools import _demag_tensor_field_based
for cell in [(1,1,1),(1,2,3),(2e-9,3e-9,5e-9)]:
    n=(3,4,2)
    mesh = df.Mesh(p1=(0,0,0), p2=tuple(c*k for c,k in zip(cell,n)), n=n)
    t = dft.demag_tensor(mesh)
    tr = t.array[...,0]+t.array[...,1]+t.array[...,2]
    print(cell, 'trace range', tr.real.min(), tr.real.max(), 'imag', np.abs(tr.imag).max())
    t2 = _demag_tensor_field_based(mesh)
    print('  impl agree', np.abs(t.array - t2.array).max())
    m = df.Field(mesh, nvdim=3, value=(0,0,1))
    s = 0
    for v in [(1,0,0),(0,1,0),(0,0,1)]:
        m = df.Field(mesh, nvdim=3, value=v)
        h = dft.demag_field(m, t)
        s += h.mean() @ np.array(v)
    print('  sum of mean demag comps', s)
