import warnings, numpy as np, os, itertools, tempfile
warnings.simplefilter('ignore')
import discretisedfield as df
from discretisedfield.operators import _split_diff_combine
rng = np.random.default_rng(7)
bad = {}
def note(k, *a): bad.setdefault(k, []).append(a)
# C04 exhaustive 1-D: all validity patterns for L<=9, both orders, open
def runs(valid):
    out=[]; s=None
    for i,v in enumerate(valid):
        if v and s is None: s=i
        if not v and s is not None: out.append((s,i)); s=None
    if s is not None: out.append((s,len(valid)))
    return out
for L in range(1,10):
    for bits in range(2**L):
        valid = np.array([(bits>>i)&1 for i in range(L)], dtype=bool)
        dx = 0.37
        x = (np.arange(L)+0.5)*dx + 1.3
        for order in (1,2):
            for deg in range(0,4):
                coef = rng.normal(size=deg+1)
                y = np.polyval(coef, x)
                mesh = df.Mesh(p1=1.3, p2=1.3+L*dx, n=L)
                f = df.Field(mesh, nvdim=1, value=y.reshape(L,1), valid=valid)
                d = f.diff('x', order=order).array[:,0]
                exact = np.polyval(np.polyder(coef, order), x) if deg>=order else np.zeros(L)
                for (s,e) in runs(valid):
                    m = e-s
                    if m <= order:
                        if np.any(d[s:e]!=0): note('short_run_nonzero', L, bits, order)
                    else:
                        maxdeg = (2 if m>=3 else 1) if order==1 else (3 if m>=4 else 2)
                        if deg <= maxdeg and not np.allclose(d[s:e], exact[s:e], rtol=1e-7, atol=1e-7*max(1,np.abs(y).max())/dx**order):
                            note('inexact', L, bits, order, deg, m, d[s:e], exact[s:e])
                if np.any(d[~valid]!=0): note('invalid_nonzero')
print({k:(len(v), v[0]) for k,v in bad.items()})
