import warnings, numpy as np, itertools
warnings.simplefilter('ignore')
import discretisedfield as df
rng = np.random.default_rng(21)
bad = {}
def note(k, *a): bad.setdefault(k, []).append(a)
for t in range(300):
    nd = int(rng.integers(1,5)); n = rng.integers(1,5,nd); cell = rng.uniform(0.5,2,nd)*10.0**rng.integers(-9,3); p1 = rng.uniform(-3,3,nd)*cell*rng.choice([0,1,30])
    dims = [['a','b','c','d'][i] for i in range(nd)]
    region = df.Region(p1=p1, p2=p1+cell*n, dims=dims)
    m0 = df.Mesh(region=region, n=n); v = m0.vertices
    boxes = {}
    for j in range(int(rng.integers(0,4))):
        lo = np.array([rng.integers(0,k) for k in n]); hi = np.array([rng.integers(l+1,k+1) for l,k in zip(lo,n)])
        boxes[f's{j}'] = (lo,hi)
    sr = {k: df.Region(p1=[v[i][lo[i]].item() for i in range(nd)], p2=[v[i][hi[i]].item() for i in range(nd)]) for k,(lo,hi) in boxes.items()}
    try: mesh = df.Mesh(region=region, n=n, subregions=sr)
    except Exception as e: note('ctor', str(e)[:40]); continue
    nv = int(rng.integers(1,4))
    dtype = rng.choice(['float','complex','int'])
    def const():
        x = rng.normal(size=nv)
        if dtype=='complex': x = x+1j*rng.normal(size=nv)
        if dtype=='int': x = rng.integers(-5,5,nv).astype(float)
        return x if nv>1 else x[0]
    def fun():
        A = rng.normal(size=(nv,nd)); b = rng.normal(size=nv)
        return lambda p: (A@np.atleast_1d(p)/cell.max() + b) if nv>1 else float((A@np.atleast_1d(p)/cell.max()+b)[0])
    spec = {}
    for k in boxes:
        if rng.random()<0.8: spec[k] = const() if rng.random()<0.6 else fun()
    spec['default'] = const() if rng.random()<0.5 else fun()
    npdt = {'float':float,'complex':complex,'int':float}[dtype]
    try:
        f = df.Field(mesh, nvdim=nv, value=spec, dtype=npdt)
    except Exception as e:
        note('dict_exc', type(e).__name__, str(e)[:80], dtype, {k:callable(v_) for k,v_ in spec.items()}); continue
    for idx in mesh.indices:
        who = 'default'
        for k in mesh.subregions:  # listing order
            lo,hi = boxes[k]
            if k in spec and all(lo[i] <= idx[i] < hi[i] for i in range(nd)): who = k; break
        s = spec[who]
        exp = s(m0.index2point(idx)) if callable(s) else s
        if not np.allclose(f.array[idx], exp, rtol=1e-12, atol=0): note('dict_val', idx, who, f.array[idx], exp); break
    # source field on another mesh covering the region
    n2 = rng.integers(1,6,nd)
    big = df.Mesh(region=region, n=n2)
    src = df.Field(big, nvdim=nv, value=rng.normal(size=(*n2,nv)))
    g = df.Field(m0, nvdim=nv, value=src)
    for idx in m0.indices:
        c = m0.index2point(idx); rel = (c-region.pmin)/big.cell
        cands = [([int(np.clip(round(q)-1,0,k-1)), int(np.clip(round(q),0,k-1))] if abs(q-round(q))<1e-6 else [int(np.clip(np.floor(q),0,k-1))]) for q,k in zip(rel,n2)]
        if not any(np.array_equal(g.array[idx], src.array[cc]) for cc in itertools.product(*cands)): note('src_val'); break
    # sampling & iteration
    for _ in range(10):
        idx = tuple(int(rng.integers(0,k)) for k in n); p = region.pmin + (np.array(idx)+rng.uniform(0.01,0.99,nd))*m0.cell
        if not np.array_equal(f(p if nd>1 else p.item()), f.array[idx]): note('call')
    its = list(f)
    exp_order = [f.array[idx] for idx in mesh.indices]
    if not all(np.array_equal(x,y) for x,y in zip(its, exp_order)) or len(its)!=len(mesh): note('iter')
    if nd>1:
        pa = region.pmin + rng.uniform(0,1,nd)*region.edges; pb = region.pmin + rng.uniform(0,1,nd)*region.edges; k = int(rng.integers(2,9))
        l = f.line(p1=tuple(pa.tolist()), p2=tuple(pb.tolist()), n=k)
        if l.n != k: note('line_n')
        pts = l.data[list(dims)].to_numpy()
        if not np.allclose(pts, pa + np.arange(k)[:,None]*(pb-pa)/(k-1), rtol=1e-12, atol=1e-12*np.abs(region.edges).max()): note('line_pts')
        if not np.allclose(l.data['r'].to_numpy(), np.linalg.norm(pts-pa,axis=1), rtol=1e-12, atol=1e-20): note('line_r')
        vals = l.data[[c for c in l.data.columns if c not in dims and c!='r']].to_numpy()
        expv = np.array([f(tuple(q.tolist())) for q in pts])
        if not np.array_equal(vals, expv.reshape(vals.shape)): note('line_vals')
print({k:(len(v), v[0]) for k,v in sorted(bad.items())})
