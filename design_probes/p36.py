import warnings, numpy as np
warnings.simplefilter('ignore')
import discretisedfield as df
sub = {'s': df.Region(p1=(0,0), p2=(1,2))}
mesh = df.Mesh(p1=(0,0), p2=(3,2), n=(3,2), subregions=sub)
f = df.Field(mesh, nvdim=1, value={'s': 7.0, 'default': lambda p: p[0]*10+p[1]})
print(f.array[...,0])
print('expected'); print(np.array([[7,7],[15.5,16.5],[25.5,26.5]]))
f = df.Field(mesh, nvdim=1, value={'s': 7.0, 'default': 1.0}); print(f.array[...,0])
# 1-d works?
mesh1 = df.Mesh(p1=0, p2=3, n=3, subregions={'s': df.Region(p1=0, p2=1)})
print(df.Field(mesh1, nvdim=1, value={'s': 7.0, 'default': lambda p: p*10}).array[...,0])
