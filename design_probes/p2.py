import warnings, numpy as np, h5py, os
import discretisedfield as df
# legacy hdf5 layout as written by discretisedfield < 0.90 
with h5py.File('leg.h5','w') as f:
    g = f.create_group('field')
    m = g.create_group('mesh'); r = m.create_group('region')
    r.create_dataset('p1', data=(0.,0.,0.)); r.create_dataset('p2', data=(4.,2.,1.))
    m.create_dataset('n', data=(4,2,1))
    g.create_dataset('dim', data=3)
    g.create_dataset('array', data=np.arange(24.).reshape(4,2,1,3))
try:
    fld = df.Field.from_file('leg.h5'); print('legacy ok', fld.nvdim)
except Exception as e:
    print('legacy FAIL', type(e).__name__, e)

# scalar*vector metadata
mesh = df.Mesh(p1=(0,0,0), p2=(4,2,1), n=(4,2,1))
v = df.Field(mesh, nvdim=3, value=(1,2,3), vdims=['a','b','c'], vdim_mapping={'a':'z','b':'y','c':'x'})
s = df.Field(mesh, nvdim=1, value=2.)
for name, r in [('v*s', v*s), ('s*v', s*v), ('v+s', v+s), ('s+v', s+v)]:
    print(name, r.vdims, r.vdim_mapping)
# ufunc with differing meshes
mesh2 = df.Mesh(p1=(10,0,0), p2=(14,2,1), n=(4,2,1))
w = df.Field(mesh2, nvdim=3, value=(1,2,3))
try:
    r = np.add(v, w); print('np.add different meshes ->', type(r), r.mesh.region.pmin)
except Exception as e: print('np.add rejected', type(e).__name__, e)
try:
    r = v + w; print('+ different meshes ->', r)
except Exception as e: print('+ rejected', type(e).__name__)

# valid aliasing
g = -v
print('shares', np.shares_memory(g.valid, v.valid))
g.valid[0,0,0] = False
print('operand valid changed?', v.valid[0,0,0])
u = np.ones((4,2,1), dtype=int)
v.valid = u
print('valid dtype after int array', v.valid.dtype)
arr = np.arange(8).reshape(4,2,1)
sc = df.Field(mesh, nvdim=1, value=arr)
print('scalar from int array shape n: dtype', sc.array.dtype, 'shares', np.shares_memory(sc.array, arr))
sc2 = df.Field(mesh, nvdim=1, value=arr[..., None])
print('scalar from int array shape (n,1): dtype', sc2.array.dtype)
