import warnings, numpy as np, os, itertools, tempfile
warnings.simplefilter('ignore')
import discretisedfield as df
rng = np.random.default_rng(9)
bad = {}
def note(k, *a): bad.setdefault(k, []).append(a)
for t in range(300):
    nd = int(rng.integers(1,4)); n = rng.integers(1,6,nd)
    cell = rng.uniform(0.5,3,nd)*10.0**rng.integers(-9,3)
    p1 = rng.uniform(-1,1,nd)*cell*n*rng.choice([0,1,50])
    dims = [['a','b','c','d'][i] for i in range(nd)]
    mesh = df.Mesh(region=df.Region(p1=p1, p2=p1+cell*n, dims=dims, units=[f'u{i}' for i in range(nd)]), n=n)
    nv = int(rng.integers(1,4))
    cplx = rng.random()<0.5
    arr = rng.normal(size=(*n,nv)) + (1j*rng.normal(size=(*n,nv)) if cplx else 0)
    f = df.Field(mesh, nvdim=nv, value=arr)
    F = f.fftn()
    km = F.mesh
    if not np.array_equal(km.n, n): note('k_n')
    # frequencies
    for i in range(nd):
        expf = np.fft.fftshift(np.fft.fftfreq(n[i], cell[i]))
        if not np.allclose(km.cells[i], expf, rtol=1e-9, atol=1e-12/cell[i]): note('kfreq', n[i], km.cells[i]*cell[i], expf*cell[i])
    if list(km.region.dims) != [f'k_{d}' for d in dims]: note('kdims')
    # direct DFT at every k-cell
    r = np.stack(np.meshgrid(*[np.arange(n[i])*cell[i] for i in range(nd)], indexing='ij'), axis=-1)
    ok = True
    for kidx in km.indices:
        k = km.index2point(kidx)
        # for single-cell axes phase is irrelevant (r=0)
        ph = np.exp(-2j*np.pi*(r@k))
        exp = (arr*ph[...,None]).sum(axis=tuple(range(nd)))
        if not np.allclose(F.array[kidx], exp, rtol=1e-9, atol=1e-9*np.abs(arr).sum()): ok=False; break
    if not ok: note('dft', n, kidx)
    b = F.ifftn()
    if not np.allclose(b.array, arr, rtol=1e-9, atol=1e-12): note('ifft_val')
    if not np.array_equal(b.mesh.n, n) or not np.allclose(b.mesh.cell, cell, rtol=1e-9): note('ifft_mesh', b.mesh.cell, cell)
    if not np.allclose(b.mesh.region.center, 0, atol=1e-9*np.max(cell*n)): note('ifft_center')
    if list(b.mesh.region.dims) != dims or list(b.mesh.region.units) != [f'u{i}' for i in range(nd)]: note('ifft_dims', b.mesh.region.dims, b.mesh.region.units)
    if not cplx:
        R = f.rfftn()
        half = n[-1]//2+1
        Fu = np.fft.ifftshift(F.array, axes=nd-1)  # unshift last axis
        if not np.allclose(R.array, np.take(Fu, range(half), axis=nd-1), rtol=1e-9, atol=1e-9*np.abs(arr).sum()): note('rfft_half', n)
        if n[-1] > 1:
            expf = np.fft.rfftfreq(n[-1], cell[-1])
            if not np.allclose(R.mesh.cells[nd-1], expf, rtol=1e-9, atol=1e-12/cell[-1]): note('rfreq')
        try:
            rb = R.irfftn(shape=tuple(int(q) for q in n))
            if not np.allclose(rb.array, arr, rtol=1e-9, atol=1e-12): note('irfft_val', n)
            if not np.array_equal(rb.mesh.n, n): note('irfft_n', rb.mesh.n, n)
        except Exception as e: note('irfft_exc', n, type(e).__name__, str(e)[:80])
    if F.vdims is not None and f.vdims is not None and F.vdims != [f'ft_{v}' for v in f.vdims]: note('ft_vdims')
print({k:(len(v), v[0]) for k,v in bad.items()})
