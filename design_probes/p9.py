import warnings, numpy as np, os, itertools
warnings.simplefilter('ignore')
import discretisedfield as df
rng = np.random.default_rng(1)
stats = dict(meshes=0, idx_rt_fail=0, interior_fail=0, face_fail=0, outside_accept=0, cellmesh_reject=0, cellmesh_wrong_n=0, cells_mismatch=0)
ex = {}
for trial in range(3000):
    nd = rng.integers(1,5)
    scale = 10.0**rng.uniform(-12, 6)
    off = rng.choice([0, 1, -1, 1e3, -1e3])*scale*rng.uniform(0,1, nd) * rng.choice([1, 1, 1e3])
    n = rng.integers(1, 9, nd)
    edges = scale*rng.uniform(0.1, 10, nd)
    p1 = off; p2 = off+edges
    if rng.random()<0.5: p1, p2 = p2, p1
    try:
        mesh = df.Mesh(p1=tuple(p1.tolist()), p2=tuple(p2.tolist()), n=tuple(int(i) for i in n))
    except Exception as e:
        print('mesh construction failed', e); continue
    stats['meshes'] += 1
    pmin = mesh.region.pmin; cell = mesh.cell
    # all indices roundtrip
    for idx in itertools.islice(mesh.indices, 200):
        p = mesh.index2point(idx)
        if not np.allclose(p, pmin + (np.array(idx)+0.5)*cell, rtol=1e-12, atol=0):
            stats['cells_mismatch'] += 1
        if mesh.point2index(p) != idx:
            stats['idx_rt_fail'] += 1; ex.setdefault('rt', (p1,p2,n,idx))
    # interior points
    for _ in range(20):
        idx = tuple(int(rng.integers(0, k)) for k in n)
        frac = rng.uniform(1e-6, 1-1e-6, nd)
        p = pmin + (np.array(idx)+frac)*cell
        if mesh.point2index(p) != idx:
            stats['interior_fail'] += 1; ex.setdefault('int', (p1,p2,n,idx,frac))
    # face points
    for _ in range(20):
        idx = np.array([int(rng.integers(0, k+1)) for k in n])
        p = pmin + idx*cell
        try:
            got = np.array(mesh.point2index(p))
        except Exception as e:
            stats['face_fail'] += 1; ex.setdefault('faceexc', (p1,p2,n,idx,str(e)[:60])); continue
        lo = np.clip(idx-1, 0, n-1); hi = np.clip(idx, 0, n-1)
        if not np.all((got>=lo)&(got<=hi)):
            stats['face_fail'] += 1; ex.setdefault('face', (p1,p2,n,idx,got))
    # outside
    for _ in range(10):
        ax = rng.integers(0, nd); p = pmin + rng.uniform(0,1,nd)*mesh.region.edges
        p[ax] = pmin[ax] - rng.uniform(1e-6, 3)*cell[ax] if rng.random()<0.5 else mesh.region.pmax[ax] + rng.uniform(1e-6,3)*cell[ax]
        try:
            mesh.point2index(p); stats['outside_accept'] += 1; ex.setdefault('out', (p1,p2,n,p))
        except ValueError: pass
    # by cell
    try:
        m2 = df.Mesh(p1=tuple(p1.tolist()), p2=tuple(p2.tolist()), cell=tuple(mesh.cell.tolist()))
        if not np.array_equal(m2.n, n): stats['cellmesh_wrong_n'] += 1; ex.setdefault('celln', (p1,p2,n,m2.n))
    except Exception as e:
        stats['cellmesh_reject'] += 1; ex.setdefault('cellrej', (p1,p2,n,str(e)[:80]))
print(stats); print(ex)
