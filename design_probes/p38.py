import warnings, numpy as np, itertools
warnings.simplefilter('ignore')
import discretisedfield as df
rng = np.random.default_rng(23)
bad = {}
def note(k, *a): bad.setdefault(k, []).append(a)
def fsnap(f): return (f.array.copy(), f.valid.copy(), f.mesh.region.pmin.copy(), f.mesh.region.pmax.copy(), f.mesh.region.units, f.mesh.n.copy(), {k:(s.pmin.copy(), s.pmax.copy()) for k,s in f.mesh.subregions.items()})
def fsame(a,b,tol=1e-12):
    sc = max(np.abs(a[2]).max(), np.abs(a[3]).max())
    return (a[0].shape==b[0].shape and np.allclose(a[0],b[0],rtol=tol,atol=tol*max(1e-300,np.abs(a[0]).max())) and np.array_equal(a[1],b[1]) and np.allclose(a[2],b[2],rtol=tol,atol=tol*sc) and np.allclose(a[3],b[3],rtol=tol,atol=tol*sc) and a[4]==b[4] and np.array_equal(a[5],b[5]) and a[6].keys()==b[6].keys() and all(np.allclose(a[6][k][0],b[6][k][0],rtol=tol,atol=tol*sc) and np.allclose(a[6][k][1],b[6][k][1],rtol=tol,atol=tol*sc) for k in a[6]))
for t in range(300):
    nd = int(rng.integers(2,5)); n = rng.integers(1,5,nd); cell = rng.uniform(0.5,2,nd)*10.0**rng.integers(-9,1); p1 = rng.uniform(-3,3,nd)*cell
    dims = [['a','b','c','d'][i] for i in range(nd)]
    region = df.Region(p1=p1, p2=p1+cell*n, dims=dims, units=['m']*nd)   # same units so F12 does not mask other things
    m0 = df.Mesh(region=region, n=n); v = m0.vertices
    lo = np.array([rng.integers(0,k) for k in n]); hi = np.array([rng.integers(l+1,k+1) for l,k in zip(lo,n)])
    mesh = df.Mesh(region=region, n=n, subregions={'s': df.Region(p1=[v[i][lo[i]].item() for i in range(nd)], p2=[v[i][hi[i]].item() for i in range(nd)])})
    nv = int(rng.choice([1, nd, nd+1]))
    vd = [f'v{i}' for i in range(nv)] if nv>1 else None
    mp = None
    if nv>1:
        perm = rng.permutation(nd); mp = {vd[i]: dims[perm[i]] for i in range(nd)}
        for i in range(nd, nv): mp[vd[i]] = None
    try:
        f = df.Field(mesh, nvdim=nv, value=rng.normal(size=(*n,nv)), vdims=vd, vdim_mapping=mp, valid=rng.random(n)>0.3)
    except Exception as e: note('ctor', str(e)[:60]); continue
    a,b = rng.choice(nd,2,replace=False); k=int(rng.integers(-5,6)); ref = None if rng.random()<0.5 else tuple((p1+rng.normal(size=nd)*cell*4).tolist())
    try: g = f.rotate90(dims[a],dims[b],k=k,reference_point=ref)
    except Exception as e: note('rot_exc', nv, nd, type(e).__name__, str(e)[:60]); continue
    # k mod 4
    g2 = f.rotate90(dims[a],dims[b],k=k%4,reference_point=ref)
    if not fsame(fsnap(g), fsnap(g2)): note('kmod4', k)
    # reverse
    back = g.rotate90(dims[a],dims[b],k=-k,reference_point=ref)
    if not fsame(fsnap(back), fsnap(f), 1e-9): note('reverse', k)
    # 4 turns
    h = f
    for _ in range(4): h = h.rotate90(dims[a],dims[b],reference_point=ref)
    if not fsame(fsnap(h), fsnap(f), 1e-9): note('fourturns')
    # in place == copy
    import copy
    fc = df.Field(df.Mesh(region=df.Region(p1=region.pmin.copy(), p2=region.pmax.copy(), dims=dims, units=['m']*nd), n=n, subregions={'s': df.Region(p1=mesh.subregions['s'].pmin.copy(), p2=mesh.subregions['s'].pmax.copy())}), nvdim=nv, value=f.array.copy(), vdims=vd, vdim_mapping=mp, valid=f.valid.copy())
    ret = fc.rotate90(dims[a],dims[b],k=k,reference_point=ref, inplace=True)
    if ret is not fc: note('inplace_ret')
    if not fsame(fsnap(fc), fsnap(g)): note('inplace_ne_copy', k, nv)
    # mesh / region consistency
    mr = mesh.rotate90(dims[a],dims[b],k=k,reference_point=ref)
    if not (mr == g.mesh): note('mesh_field_consistent')
    rr = region.rotate90(dims[a],dims[b],k=k,reference_point=ref)
    if not rr.allclose(g.mesh.region): note('region_mesh_consistent')
    # C05 commutation on scalar fields: grad(rot f) == rot(grad f), laplace
    if nv==1 and all(n>=1):
        fv = df.Field(mesh, nvdim=1, value=f.array)   # fully valid
        try:
            lhs = fv.rotate90(dims[a],dims[b],k=k,reference_point=ref).grad
            rhs = fv.grad.rotate90(dims[a],dims[b],k=k,reference_point=ref)
            sc = np.abs(fv.array).max()/cell.min()
            if not np.allclose(lhs.array, rhs.array, rtol=0, atol=1e-9*sc): note('grad_commute', k, n, np.abs(lhs.array-rhs.array).max()/sc)
            l1 = fv.rotate90(dims[a],dims[b],k=k,reference_point=ref).laplace; l2 = fv.laplace.rotate90(dims[a],dims[b],k=k,reference_point=ref)
            if not np.allclose(l1.array, l2.array, rtol=0, atol=1e-9*sc/cell.min()): note('laplace_commute')
        except Exception as e: note('commute_exc', type(e).__name__, str(e)[:80])
    if nv==nd:
      try:
        fv = df.Field(mesh, nvdim=nv, value=f.array, vdims=vd, vdim_mapping=mp)
        d1 = fv.rotate90(dims[a],dims[b],k=k,reference_point=ref).div; d2 = fv.div.rotate90(dims[a],dims[b],k=k,reference_point=ref)
        sc = np.abs(fv.array).max()/cell.min()
        if not np.allclose(d1.array, d2.array, rtol=0, atol=1e-9*sc): note('div_commute')
        if nd==3:
            c1 = fv.rotate90(dims[a],dims[b],k=k,reference_point=ref).curl; c2 = fv.curl.rotate90(dims[a],dims[b],k=k,reference_point=ref)
            if not np.allclose(c1.array, c2.array, rtol=0, atol=1e-9*sc): note('curl_commute', perm, k, (a,b))
      except ValueError as e: note('F15_in_diff', str(e)[:40])
print({k:(len(v), v[0]) for k,v in sorted(bad.items())})
