import warnings, numpy as np
warnings.simplefilter('ignore')
import discretisedfield as df
rng = np.random.default_rng(16)
mesh = df.Mesh(p1=(0,0), p2=(2,1), n=(2,1))
cnt=0
for t in range(200):
    kinds = rng.choice(['float','int','complex'], 2)
    def mk(kind):
        a = rng.normal(size=(2,1,2))
        if kind=='int': a = rng.integers(-4,5,size=(2,1,2))
        if kind=='complex': a = a+1j*rng.normal(size=(2,1,2))
        return df.Field(mesh, nvdim=2, value=a, dtype=a.dtype)
    a = mk(kinds[0]); b = mk(kinds[1])
    r1 = a*b; r2 = b*a
    if not np.array_equal(r1.array, r2.array):
        cnt+=1
        if cnt<4: print(kinds, r1.array.dtype, r2.array.dtype, a.dtype, b.dtype, r1.array.ravel()[:2], r2.array.ravel()[:2], (a.array*b.array).ravel()[:2])
print(cnt)
