import warnings, numpy as np, os, itertools, tempfile, collections
warnings.simplefilter('ignore')
import discretisedfield as df
rng = np.random.default_rng(10)
bad = {}
def note(k, *a): bad.setdefault(k, []).append(a)
tmp = tempfile.mkdtemp()
for t in range(200):
    n = rng.integers(1,5,3)
    cell = rng.uniform(0.5,3,3)*10.0**rng.integers(-9,3)
    p1 = rng.uniform(-1,1,3)*cell*n*rng.choice([0,1,50])
    intc = rng.random()<0.3
    if intc:
        cell = rng.integers(1,4,3); p1 = rng.integers(-5,5,3)
    mesh0 = df.Mesh(p1=tuple(p1.tolist()), p2=tuple((p1+cell*n).tolist()), n=tuple(int(k) for k in n))
    sr = {}
    if rng.random()<0.5:
        v = mesh0.vertices
        lo = np.array([rng.integers(0,k) for k in n]); hi = np.array([rng.integers(l+1,k+1) for l,k in zip(lo,n)])
        sr['s0'] = df.Region(p1=[v[d][lo[d]].item() for d in range(3)], p2=[v[d][hi[d]].item() for d in range(3)])
    try: mesh = df.Mesh(p1=tuple(p1.tolist()), p2=tuple((p1+cell*n).tolist()), n=tuple(int(k) for k in n), subregions=sr)
    except Exception: mesh = mesh0
    nv = int(rng.integers(1,6))
    vd = [f'c{i}' for i in range(nv)] if nv>1 else None
    unit = rng.choice(['A/m','T', None])
    arr = rng.normal(size=(*n,nv))*10.0**rng.integers(-30,30, size=(*n,nv))
    f = df.Field(mesh, nvdim=nv, value=arr, vdims=vd, unit=unit)
    for rep in ('bin8','bin4','txt'):
        fn = os.path.join(tmp, f't{t}_{rep}.ovf')
        try:
            f.to_file(fn, representation=rep); r = df.Field.from_file(fn)
        except Exception as e:
            note('ovf_exc', rep, type(e).__name__, str(e)[:100]); continue
        if not (np.array_equal(r.mesh.region.pmin, mesh.region.pmin) and np.array_equal(r.mesh.region.pmax, mesh.region.pmax)): note('ovf_corners', rep)
        if not np.array_equal(r.mesh.n, mesh.n): note('ovf_n', rep)
        if r.nvdim != nv: note('ovf_nvdim')
        if r.unit != unit: note('ovf_unit', rep, r.unit, unit)
        if nv>1 and r.vdims != vd: note('ovf_vdims', rep, r.vdims, vd)
        if rep=='bin8' and not np.array_equal(r.array, arr): note('ovf_bin8_val')
        if rep=='bin4' and not np.array_equal(r.array, arr.astype(np.float32).astype(float)): note('ovf_bin4_val')
        if rep=='txt' and not np.allclose(r.array, arr, rtol=1e-9, atol=0): note('ovf_txt_val')
        if set(r.mesh.subregions) != set(mesh.subregions): note('ovf_sub', rep)
        else:
            for k in mesh.subregions:
                if r.mesh.subregions[k] != mesh.subregions[k]: note('ovf_subval', rep)
    # truncation on bin8
    fn = os.path.join(tmp, f't{t}_bin8.ovf')
    data = open(fn,'rb').read()
    start = data.index(b'# Begin: Data Binary 8\n') + len(b'# Begin: Data Binary 8\n')
    end = start + 8 + 8*arr.size
    for cut in sorted(set([start, start+3, start+8, start+8+8*(arr.size//2), end-1, end-8] )):
        if cut<start or cut>=end: continue
        fn2 = os.path.join(tmp, f'trunc.ovf'); open(fn2,'wb').write(data[:cut])
        try:
            r = df.Field.from_file(fn2); note('trunc_accepted', cut-start, arr.size*8)
        except Exception as e: pass
    # corrupted check value
    d2 = bytearray(data); d2[start+2] ^= 0x10
    fn2 = os.path.join(tmp, f'corr.ovf'); open(fn2,'wb').write(bytes(d2))
    try:
        r = df.Field.from_file(fn2); note('corrupt_accepted')
    except Exception as e: pass
print({k:(len(v), v[0]) for k,v in bad.items()})
print(collections.Counter((x[0],) for x in bad.get('ovf_exc', [])))
import shutil; shutil.rmtree(tmp)
