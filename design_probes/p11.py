import warnings, numpy as np, os, itertools
warnings.simplefilter('ignore')
import discretisedfield as df
rng = np.random.default_rng(3)
bad = {}
def note(k, *a): bad.setdefault(k, []).append(a)
def rmesh(nd, subs=True):
    n = rng.integers(1, 6, nd)
    scale = 10.0**rng.integers(-9, 3)
    cell = rng.uniform(0.5, 3, nd)*scale
    p1 = rng.uniform(-1,1,nd)*cell*n*rng.choice([0,1,100])
    dims = [['a','b','c','d'][i] for i in range(nd)]
    region = df.Region(p1=p1, p2=p1+cell*n, dims=dims)
    m0 = df.Mesh(region=region, n=n)
    sr = {}
    if subs:
        for j in range(rng.integers(0,4)):
            lo = np.array([rng.integers(0,k) for k in n]); hi = np.array([rng.integers(l+1,k+1) for l,k in zip(lo,n)])
            v = m0.vertices
            sr[f's{j}'] = df.Region(p1=[v[d][lo[d]] for d in range(nd)], p2=[v[d][hi[d]] for d in range(nd)])
    try:
        return df.Mesh(region=region, n=n, subregions=sr), sr
    except Exception as e:
        note('mesh_sub_ctor', n, p1, cell, str(e)[:80]); return m0, {}
for t in range(800):
    nd = int(rng.integers(1,5))
    mesh, sr = rmesh(nd)
    n = mesh.n; nv = int(rng.integers(1,4))
    f = df.Field(mesh, nvdim=nv, value=rng.normal(size=(*n,nv)), valid=rng.random(n)>0.3)
    dims = mesh.region.dims
    # dict init
    if sr:
        vals = {k: rng.normal(size=nv) if nv>1 else float(rng.normal()) for k in sr}
        vals['default'] = rng.normal(size=nv) if nv>1 else float(rng.normal())
        try:
            fd = df.Field(mesh, nvdim=nv, value=vals)
            for idx in mesh.indices:
                p = mesh.index2point(idx)
                exp = vals['default']
                for k in mesh.subregions:
                    if p in mesh.subregions[k]: exp = vals[k]; break
                if not np.allclose(fd.array[idx], exp): note('dict', idx, fd.array[idx], exp); break
        except Exception as e: note('dict_exc', type(e).__name__, str(e)[:80])
    # plane sel
    ax = int(rng.integers(0,nd)); d = dims[ax]
    i = int(rng.integers(0, n[ax])); x = mesh.region.pmin[ax] + (i + rng.uniform(0.01,0.99))*mesh.cell[ax]
    try:
        s = f.sel(**{d: x})
        if nd>1:
            exp = np.take(f.array, i, axis=ax)
            if not np.array_equal(s.array, exp): note('sel_plane_val', n, ax, i)
            if not np.array_equal(s.valid, np.take(f.valid, i, axis=ax)): note('sel_plane_valid', n, ax, i)
            if list(s.mesh.region.dims) != [q for q in dims if q!=d]: note('sel_dims')
    except Exception as e: note('sel_plane_exc', type(e).__name__, str(e)[:100], n, ax, x)
    # range sel
    lo = int(rng.integers(0, n[ax])); hi = int(rng.integers(lo, n[ax]))
    a = mesh.region.pmin[ax] + (lo + rng.uniform(0.01,0.99))*mesh.cell[ax]; b = mesh.region.pmin[ax] + (hi + rng.uniform(0.01,0.99))*mesh.cell[ax]
    try:
        s = f.sel(**{d: (a,b)})
        exp = np.take(f.array, range(lo,hi+1), axis=ax)
        if not np.array_equal(s.array, exp): note('sel_range_val', n, ax, lo, hi)
        if s.mesh.n[ax] != hi-lo+1: note('sel_range_n')
        if not np.isclose(s.mesh.region.pmin[ax], mesh.region.pmin[ax]+lo*mesh.cell[ax], rtol=1e-9, atol=0) and lo>0: note('sel_range_pmin', s.mesh.region.pmin[ax], mesh.region.pmin[ax]+lo*mesh.cell[ax])
    except Exception as e: note('sel_range_exc', type(e).__name__, str(e)[:100], n, ax, a, b, {k:(v.pmin, v.pmax) for k,v in mesh.subregions.items()}, mesh.region.pmin, mesh.region.pmax)
    # named subregion
    for k in mesh.subregions:
        try:
            s = f[k]
            if s.mesh.region != mesh.subregions[k]: note('getitem_name_region')
            for idx in s.mesh.indices:
                p = s.mesh.index2point(idx)
                if not np.array_equal(s.array[idx], f(p)): note('getitem_name_val'); break
        except Exception as e: note('getitem_name_exc', type(e).__name__, str(e)[:100])
    # resample
    n2 = rng.integers(1, 7, nd)
    try:
        r = f.resample(tuple(int(q) for q in n2))
        for idx in r.mesh.indices:
            p = r.mesh.index2point(idx)
            # candidates: cells whose closed extent contains p (tolerance)
            rel = (p - mesh.region.pmin)/mesh.cell
            cands = [ ([int(np.clip(round(q)-1,0,k-1)), int(np.clip(round(q),0,k-1))] if abs(q-round(q))<1e-6 else [int(np.clip(np.floor(q),0,k-1))]) for q,k in zip(rel,n)]
            ok = any(np.array_equal(r.array[idx], f.array[c]) and r.valid[idx]==f.valid[c] for c in itertools.product(*cands))
            if not ok: note('resample', n, n2, idx); break
    except Exception as e: note('resample_exc', type(e).__name__, str(e)[:100])
for k_, v in bad.items(): print(k_, len(v), v[0])
print('done')
