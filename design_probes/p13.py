import warnings, numpy as np, os, itertools
warnings.simplefilter('ignore')
import discretisedfield as df
rng = np.random.default_rng(4)
bad = {}
def note(k, *a): bad.setdefault(k, []).append(a)
np.seterr(all='ignore')
for t in range(500):
    nd = int(rng.integers(1,4)); n = rng.integers(1,5,nd)
    cell = rng.uniform(0.5,3,nd)*10.0**rng.integers(-9,3)
    p1 = rng.uniform(-1,1,nd)*cell*n
    mesh = df.Mesh(p1=tuple(p1.tolist()), p2=tuple((p1+cell*n).tolist()), n=tuple(int(k) for k in n))
    nv = int(rng.integers(1,5))
    mag = 10.0**rng.uniform(-6, 150, size=(*n,1))
    dirs = rng.normal(size=(*n,nv)); dirs /= np.linalg.norm(dirs, axis=-1, keepdims=True)
    arr = dirs*mag
    zero = rng.random(n) < 0.3
    arr[zero] = 0
    f = df.Field(mesh, nvdim=nv, value=arr, unit='A/m', valid=rng.random(n)>0.3)
    # norm getter
    nf = f.norm
    if nf.nvdim != 1 or nf.unit != 'A/m' or not np.array_equal(nf.valid, f.valid): note('norm_meta')
    if not np.allclose(nf.array[...,0], np.linalg.norm(arr, axis=-1), rtol=1e-13): note('norm_val')
    # orientation
    if nv > 1:
        o = f.orientation
        on = np.linalg.norm(o.array, axis=-1)
        nz = ~zero
        if not np.allclose(on[nz], 1, rtol=1e-12): note('orient_unit', on[nz])
        if np.any(o.array[zero] != 0): note('orient_zero')
        if not np.allclose((o*f.norm).array, arr, rtol=1e-12, atol=0): note('orient_times_norm')
    # norm setter const / array / func
    kind = rng.choice(['const','array','func'])
    if kind == 'const': target = float(10.0**rng.uniform(-3,6)); tarr = np.full(n, target)
    elif kind == 'array': tarr = 10.0**rng.uniform(-3,6,size=n); tarr[rng.random(n)<0.2] = 0; target = tarr[...,None]
    else:
        target = lambda p: float(abs(np.sum(p))+1.0)
        tarr = np.array([target(mesh.index2point(i)) for i in mesh.indices]).reshape(tuple(reversed(n))).T if nd>1 else np.array([target(mesh.index2point(i)) for i in mesh.indices])
        # rebuild with explicit loop for safety
        tarr = np.empty(n)
        for i in mesh.indices: tarr[i] = target(mesh.index2point(i))
    g = df.Field(mesh, nvdim=nv, value=arr.copy())
    try:
        g.norm = target
    except Exception as e:
        note('norm_set_exc', kind, type(e).__name__, str(e)[:80]); continue
    gn = np.linalg.norm(g.array, axis=-1)
    nz = ~zero
    if not np.allclose(gn[nz], tarr[nz], rtol=1e-12, atol=0): note('norm_set_len', kind, gn[nz][:3], tarr[nz][:3])
    if np.any(g.array[zero] != 0): note('norm_set_zero')
    # direction preserved
    with np.errstate(all='ignore'):
        d2 = g.array[nz]/np.where(gn[nz]==0, 1, gn[nz])[...,None]
    m = tarr[nz] != 0
    if not np.allclose(d2[m], dirs[nz][m], rtol=1e-12, atol=1e-12): note('norm_set_dir', kind)
    # later update doesn't reapply norm
    g.update_field_values(arr)
    if not np.array_equal(g.array, arr): note('norm_reapplied')
    # valid='norm'
    h = df.Field(mesh, nvdim=nv, value=arr.copy(), valid='norm')
    if not np.array_equal(h.valid, ~zero): note('valid_norm', np.sum(h.valid != ~zero), mag[h.valid != ~zero][:3])
for k_, v in bad.items(): print(k_, len(v), v[0])
print('done')
