import warnings, numpy as np, os, itertools
import discretisedfield as df
np.seterr(all='ignore')
# sel range ending on subregion face, non-representable coordinates
fails = 0; tot = 0; ex = None
for n in range(2, 12):
  for L in (1.0, 0.7, 1e-9*3, 100e-9):
    for off in (0.0, 0.1, -0.3e-9, 5.0):
      mesh = None
      cell = L/n
      for k in range(1, n):
        try:
            sr = df.Region(p1=(off,), p2=(off + k*cell,))
            mesh = df.Mesh(p1=off, p2=off+L, n=n, subregions={'s': sr})
        except Exception as e:
            continue
        # range selecting cells 0..k-1 by their centres: ends on the subregion face
        for lo in range(0, n):
          for hi in range(lo, n):
            tot += 1
            a = off + (lo+0.5)*cell; b = off + (hi+0.5)*cell
            try:
                sub = mesh.sel(x=(a, b))
            except Exception as e:
                fails += 1
                if ex is None: ex = (n, L, off, k, lo, hi, type(e).__name__, str(e)[:100])
print('sel range failures', fails, 'of', tot, ex)
