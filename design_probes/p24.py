import warnings, numpy as np, itertools
warnings.simplefilter('ignore')
import discretisedfield as df
from scipy.spatial.transform import Rotation
rng = np.random.default_rng(14)
bad = {}
def note(k, *a): bad.setdefault(k, []).append(a)
def trilinear(f, p):
    # independent trilinear interpolation between cell centres of field f at point p (inside centre hull)
    m = f.mesh; rel = (p - m.region.pmin)/m.cell - 0.5
    i0 = np.floor(rel).astype(int); i0 = np.clip(i0, 0, np.maximum(m.n-2,0)); w = rel - i0
    out = 0
    for d in itertools.product([0,1], repeat=3):
        idx = tuple(np.clip(i0+np.array(d), 0, m.n-1)); wt = np.prod([w[j] if d[j] else 1-w[j] for j in range(3)])
        out = out + wt*f.array[idx]
    return out
for t in range(60):
    n = rng.integers(3,7,3); cell = rng.uniform(0.5,2,3); p1 = rng.uniform(-3,3,3)
    mesh = df.Mesh(p1=tuple(p1.tolist()), p2=tuple((p1+cell*n).tolist()), n=tuple(int(k) for k in n))
    nv = int(rng.choice([1,3]))
    if nv==3:
        perm = rng.permutation(3); vd=['a','b','c']; mapping={vd[j]: 'xyz'[perm[j]] for j in range(3)}
        f = df.Field(mesh, nvdim=3, value=rng.normal(size=(*n,3)), vdims=vd, vdim_mapping=mapping)
    else:
        f = df.Field(mesh, nvdim=1, value=rng.normal(size=(*n,1)))
    rot = df.FieldRotator(f)
    Rtot = Rotation.identity()
    for step in range(int(rng.integers(1,4))):
        R = Rotation.random(random_state=int(rng.integers(1e9)))
        meth = rng.choice(['from_quat','from_matrix','from_rotvec','from_euler'])
        if meth=='from_quat': rot.rotate('from_quat', R.as_quat())
        elif meth=='from_matrix': rot.rotate('from_matrix', R.as_matrix())
        elif meth=='from_rotvec': rot.rotate('from_rotvec', R.as_rotvec())
        else: rot.rotate('from_euler', seq='zyx', angles=R.as_euler('zyx'))
        Rtot = R*Rtot
    g = rot.field
    Qm = Rtot.as_matrix(); c = mesh.region.center
    # bounding box
    half = np.abs(Qm)@mesh.region.edges/2
    if not (np.allclose(g.mesh.region.pmin, c-half, rtol=1e-9, atol=1e-9) and np.allclose(g.mesh.region.pmax, c+half, rtol=1e-9, atol=1e-9)): note('bbox')
    nin=0; nout=0
    for idx in g.mesh.indices:
        q = g.mesh.index2point(idx)
        p = c + Qm.T@(q-c)
        inner = np.all(p >= mesh.region.pmin + cell) and np.all(p <= mesh.region.pmax - cell)
        outer = np.any(p < mesh.region.pmin - 1e-6*cell) or np.any(p > mesh.region.pmax + 1e-6*cell)
        if inner:
            nin+=1
            v = trilinear(f, p)
            if nv==3:
                # physical vector: component along axis 'xyz'[perm[j]] stored at j
                phys = np.zeros(3); 
                for j in range(3): phys[perm[j]] = v[j]
                physr = Qm@phys
                exp = np.array([physr[perm[j]] for j in range(3)])
            else: exp = v
            if not np.allclose(g.array[idx], exp, rtol=1e-8, atol=1e-8): note('interior', idx, g.array[idx], exp); break
        elif outer:
            nout+=1
            if np.any(g.array[idx]!=0): note('outside_nonzero', idx, g.array[idx]); break
    rot.clear_rotation()
    if rot.field is not f and not (rot.field == f): note('clear')
print({k:(len(v), v[0]) for k,v in bad.items()})
