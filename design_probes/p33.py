import warnings, numpy as np
warnings.simplefilter('ignore')
import discretisedfield as df
import discretisedfield.tools as dft
def aharoni_Dz(a, b, c):
    # Aharoni, J. Appl. Phys. 83, 3432 (1998): prism 2a x 2b x 2c, magnetised along z (c)
    a,b,c = a/2, b/2, c/2
    r = np.sqrt(a*a+b*b+c*c); rab=np.sqrt(a*a+b*b); rac=np.sqrt(a*a+c*c); rbc=np.sqrt(b*b+c*c)
    t = ((b*b-c*c)/(2*b*c))*np.log((r-a)/(r+a)) + ((a*a-c*c)/(2*a*c))*np.log((r-b)/(r+b)) \
        + (b/(2*c))*np.log((rab+a)/(rab-a)) + (a/(2*c))*np.log((rab+b)/(rab-b)) \
        + (c/(2*a))*np.log((rbc-b)/(rbc+b)) + (c/(2*b))*np.log((rac-a)/(rac+a)) \
        + 2*np.arctan(a*b/(c*r)) + (a**3+b**3-2*c**3)/(3*a*b*c) + ((a*a+b*b-2*c*c)/(3*a*b*c))*r \
        + (c/(a*b))*(rac+rbc) - ((rab**3+rbc**3+rac**3)/(3*a*b*c))
    return t/np.pi
print('cube', aharoni_Dz(1,1,1))
for n, cell in [((4,4,4),(1,1,1)), ((6,3,2),(1,1,1)), ((5,4,3),(2e-9,2e-9,2e-9)), ((3,4,2),(1,2,3))]:
    L = [k*c for k,c in zip(n,cell)]
    mesh = df.Mesh(p1=(0,0,0), p2=tuple(L), n=n)
    t = dft.demag_tensor(mesh)
    for ax, v in enumerate([(1,0,0),(0,1,0),(0,0,1)]):
        m = df.Field(mesh, nvdim=3, value=v)
        h = dft.demag_field(m, t).mean()
        perm = [(1,2,0),(2,0,1),(0,1,2)][ax]
        D = aharoni_Dz(L[perm[0]], L[perm[1]], L[perm[2]])
        print(n, cell, 'axis', ax, 'mean H', h[ax], 'expected', -D, 'offdiag', np.abs(np.delete(h, ax)).max())
