import warnings, numpy as np
warnings.simplefilter('ignore')
import discretisedfield as df
d='/repo/discretisedfield/tests/test_sample/'
f = df.Field.from_file(d+'vtk-vector-legacy.vtk'); print(f.mesh.region.pmin, f.mesh.region.pmax, f.mesh.n, f.array[:2,0,0], f.vdims)
f = df.Field.from_file(d+'vtk-scalar-legacy.vtk'); print(f.mesh.region.pmin, f.mesh.region.pmax, f.mesh.n, f.array[:,0,:,0])
