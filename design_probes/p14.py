import warnings, numpy as np, os, itertools, tempfile
warnings.simplefilter('ignore')
import discretisedfield as df
import pyvista as pv
rng = np.random.default_rng(5)
bad = {}
def note(k, *a): bad.setdefault(k, []).append(a)
tmp = tempfile.mkdtemp()
for t in range(150):
    n = rng.integers(1,5,3)
    cell = rng.uniform(0.5,3,3)*10.0**rng.integers(-9,3)
    p1 = rng.uniform(-1,1,3)*cell*n*rng.choice([0,1,50])
    sr = {}
    mesh0 = df.Mesh(p1=tuple(p1.tolist()), p2=tuple((p1+cell*n).tolist()), n=tuple(int(k) for k in n))
    if rng.random()<0.5:
        v = mesh0.vertices
        lo = np.array([rng.integers(0,k) for k in n]); hi = np.array([rng.integers(l+1,k+1) for l,k in zip(lo,n)])
        sr['s0'] = df.Region(p1=[v[d][lo[d]] for d in range(3)], p2=[v[d][hi[d]] for d in range(3)])
    try: mesh = df.Mesh(p1=tuple(p1.tolist()), p2=tuple((p1+cell*n).tolist()), n=tuple(int(k) for k in n), subregions=sr)
    except Exception: mesh = mesh0
    nv = int(rng.integers(1,5))
    vd = [f'c{i}_x' for i in range(nv)] if nv>1 else None
    f = df.Field(mesh, nvdim=nv, value=rng.normal(size=(*n,nv))*10.0**rng.integers(-5,8), valid=rng.random(n)>0.3, vdims=vd)
    # to_vtk + pyvista cell lookup
    grid = pv.wrap(f.to_vtk())
    for idx in mesh.indices:
        p = mesh.index2point(idx)
        cid = grid.find_containing_cell(p)
        if cid < 0: note('vtk_find', idx); break
        if not np.allclose(np.atleast_1d(grid.cell_data['field'][cid]), f.array[idx], rtol=0, atol=0): note('vtk_field', idx); break
        if bool(grid.cell_data['valid'][cid]) != f.valid[idx]: note('vtk_valid'); break
        if not np.isclose(grid.cell_data['norm'][cid], np.linalg.norm(f.array[idx]), rtol=1e-14): note('vtk_norm'); break
        if nv>1:
            for j,c in enumerate(vd):
                if grid.cell_data[c][cid] != f.array[idx][j]: note('vtk_comp'); break
    for rep in ('bin','txt','xml'):
        fn = os.path.join(tmp, f't{t}_{rep}.vtk')
        try:
            f.to_file(fn, representation=rep); r = df.Field.from_file(fn)
        except Exception as e:
            note('vtk_io_exc', rep, type(e).__name__, str(e)[:100]); continue
        tol = dict(rtol=0, atol=0) if rep != 'txt' else dict(rtol=1e-9, atol=0)
        if not np.array_equal(r.mesh.n, mesh.n): note('vtkrt_n', rep)
        if not (np.allclose(r.mesh.region.pmin, mesh.region.pmin, **tol) and np.allclose(r.mesh.region.pmax, mesh.region.pmax, **tol)): note('vtkrt_region', rep, r.mesh.region.pmin, mesh.region.pmin)
        if not np.allclose(r.array, f.array, **tol): note('vtkrt_val', rep, np.abs(r.array-f.array).max()/np.abs(f.array).max())
        if not np.array_equal(r.valid, f.valid): note('vtkrt_valid', rep, r.valid.dtype)
        if r.valid.dtype != bool: note('vtkrt_valid_dtype', rep, r.valid.dtype)
        if nv>1 and r.vdims != vd: note('vtkrt_vdims', rep, r.vdims, vd)
        if set(r.mesh.subregions) != set(mesh.subregions): note('vtkrt_sub', rep, r.mesh.subregions, mesh.subregions)
        else:
            for k in mesh.subregions:
                if not r.mesh.subregions[k].allclose(mesh.subregions[k]): note('vtkrt_subval', rep)
for k_, v in bad.items(): print(k_, len(v), v[0])
print('done')
import collections
print(collections.Counter(x[0] for x in bad.get('vtk_io_exc', [])))
print(collections.Counter(x[0] for x in bad.get('vtkrt_valid_dtype', [])))
