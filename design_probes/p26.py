import warnings, numpy as np, itertools, collections
warnings.simplefilter('ignore')
import discretisedfield as df
np.seterr(all='ignore')
rng = np.random.default_rng(16)
bad = {}
def note(k, *a): bad.setdefault(k, []).append(a)
def snap(f): return (f.array.copy(), f.valid.copy(), None if f.vdims is None else list(f.vdims), dict(f.vdim_mapping), f.mesh.region.pmin.copy(), f.mesh.region.pmax.copy(), f.mesh.n.copy(), f.unit)
def same(a,b): return np.array_equal(a[0],b[0],equal_nan=True) and np.array_equal(a[1],b[1]) and a[2]==b[2] and a[3]==b[3] and np.array_equal(a[4],b[4]) and np.array_equal(a[5],b[5]) and np.array_equal(a[6],b[6]) and a[7]==b[7]
for t in range(400):
    nd = int(rng.integers(1,5)); n = rng.integers(1,4,nd); cell = rng.uniform(0.5,2,nd); p1 = rng.uniform(-3,3,nd)
    mesh = df.Mesh(p1=tuple(p1.tolist()), p2=tuple((p1+cell*n).tolist()), n=tuple(int(k) for k in n))
    def rf(nv, kind=None):
        kind = kind or rng.choice(['float','int','complex'])
        a = rng.normal(size=(*n,nv))
        if kind=='int': a = rng.integers(-4,5,size=(*n,nv))
        if kind=='complex': a = a+1j*rng.normal(size=(*n,nv))
        vd = None
        if nv>1 and rng.random()<0.5: vd=[f'c{i}' for i in range(nv)]
        return df.Field(mesh, nvdim=nv, value=a, valid=rng.random(n)>0.3, vdims=vd, dtype=a.dtype)
    nv = int(rng.integers(1,5))
    a = rf(nv); b = rf(nv); s = rf(1)
    ops = {'add': lambda x,y: x+y, 'sub': lambda x,y: x-y, 'mul': lambda x,y: x*y, 'div': lambda x,y: x/y, 'pow': lambda x,y: x**y}
    nops = {'add': np.add, 'sub': np.subtract, 'mul': np.multiply, 'div': np.divide, 'pow': np.power}
    for name in ops:
        for (x,y,tag) in [(a,b,'ff'), (a,s,'fs'), (s,a,'sf'), (a,2.5,'fn'), (2.5,a,'nf'), (a, tuple(rng.normal(size=nv).tolist()),'fv'), (tuple(rng.normal(size=nv).tolist()), a, 'vf')]:
            sx = snap(x) if isinstance(x, df.Field) else None; sy = snap(y) if isinstance(y, df.Field) else None
            try:
                r = ops[name](x,y)
            except Exception as e:
                note('exc_'+name+'_'+tag, type(e).__name__, str(e)[:60]); continue
            xa = x.array if isinstance(x, df.Field) else x; ya = y.array if isinstance(y, df.Field) else y
            exp = nops[name](xa, ya)
            if not isinstance(r, df.Field): note('notfield_'+name+'_'+tag, type(r)); continue
            if not np.array_equal(r.array, exp, equal_nan=True): note('val_'+name+'_'+tag, r.array.dtype, np.asarray(exp).dtype)
            ev = np.ones(n, bool)
            if isinstance(x, df.Field): ev &= x.valid
            if isinstance(y, df.Field): ev &= y.valid
            if not np.array_equal(r.valid, ev): note('valid_'+name+'_'+tag)
            if sx and not same(sx, snap(x)): note('mut_'+name+'_'+tag)
            if sy and not same(sy, snap(y)): note('mut_'+name+'_'+tag)
        # commutativity incl metadata
    for name in ('add','mul'):
        for (x,y,tag) in [(a,b,'ff'),(a,s,'fs'),(a,2.5,'fn')]:
            r1 = ops[name](x,y); r2 = ops[name](y,x)
            if not (np.array_equal(r1.array, r2.array, equal_nan=True) and np.array_equal(r1.valid,r2.valid)): note('comm_val_'+name+tag)
            if r1.vdims != r2.vdims or r1.vdim_mapping != r2.vdim_mapping: note('comm_meta_'+name+tag, r1.vdims, r2.vdims, r1.vdim_mapping, r2.vdim_mapping)
print({k:(len(v), v[0]) for k,v in sorted(bad.items())})
