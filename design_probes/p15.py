import warnings, numpy as np, os, itertools, tempfile
warnings.simplefilter('ignore')
import discretisedfield as df
rng = np.random.default_rng(6)
bad = {}
def note(k, *a): bad.setdefault(k, []).append(a)
for t in range(400):
    nd = int(rng.integers(1,5)); n = rng.integers(1,5,nd)
    cell = rng.uniform(0.5,3,nd)*10.0**rng.integers(-9,3)
    p1 = rng.uniform(-1,1,nd)*cell*n*rng.choice([0,1,50])
    dims = [['a','b','c','d'][i] for i in range(nd)]
    mesh = df.Mesh(region=df.Region(p1=p1, p2=p1+cell*n, dims=dims, units=[f'u{i}' for i in range(nd)]), n=n)
    nv = int(rng.integers(1,5))
    arr = rng.normal(size=(*n,nv))
    f = df.Field(mesh, nvdim=nv, value=arr, unit='T')
    # C06 integrals
    tot = f.integrate()
    if not np.allclose(tot, arr.sum(axis=tuple(range(nd)))*np.prod(cell), rtol=1e-12): note('int_all')
    for perm in itertools.islice(itertools.permutations(range(nd)), 4):
        g = f
        for ax in perm:
            g = g.integrate(dims[ax])
        if not np.allclose(np.asarray(g).reshape(-1) if not isinstance(g, df.Field) else g.array.reshape(-1), tot, rtol=1e-11, atol=1e-300): note('fubini', perm, g, tot)
    ax = int(rng.integers(0,nd))
    di = f.integrate(dims[ax])
    exp = arr.sum(axis=ax)*cell[ax]
    got = di.array if isinstance(di, df.Field) else di
    if not np.allclose(got, exp, rtol=1e-12): note('dir_int')
    if isinstance(di, df.Field):
        if list(di.mesh.region.dims) != [d for i,d in enumerate(dims) if i!=ax]: note('dir_int_dims')
        if not np.allclose(di.mesh.cell, np.delete(cell, ax), rtol=1e-9): note('dir_int_cell')
    cu = f.integrate(dims[ax], cumulative=True)
    cs = np.cumsum(arr, axis=ax) - arr/2
    if not np.allclose(cu.array, cs*cell[ax], rtol=1e-11, atol=1e-14*np.abs(cs*cell[ax]).max()): note('cumul')
    # mean
    m = f.mean()
    if not np.allclose(m, tot/np.prod(cell*n), rtol=1e-11): note('mean_all')
    md = f.mean(dims[ax]) if nd>1 else f.mean()
    gotm = md.array if isinstance(md, df.Field) else md
    if nd>1 and not np.allclose(gotm, exp/(cell[ax]*n[ax]), rtol=1e-11): note('mean_dir')
    # C17 xarray
    xa = f.to_xarray()
    for i,d in enumerate(dims):
        if not np.array_equal(xa[d].values, mesh.cells[i]): note('xa_coords')
        if xa[d].attrs.get('units') != f'u{i}': note('xa_units')
    r = df.Field.from_xarray(xa)
    if not (r == f): note('xa_rt_eq')
    if r.vdims != f.vdims: note('xa_rt_vdims', r.vdims, f.vdims)
    if r.array.dtype != f.array.dtype: note('xa_rt_dtype')
    if r.mesh.region.units != mesh.region.units or r.mesh.region.dims != mesh.region.dims: note('xa_rt_regionmeta')
    # attrs removed
    xb = xa.copy(); xb.attrs = {'nvdim': nv}
    try:
        r2 = df.Field.from_xarray(xb)
        if not r2.mesh.allclose(mesh, rtol=1e-9): note('xa_noattr_mesh', r2.mesh.region.pmin, mesh.region.pmin)
        if not np.array_equal(r2.array, f.array): note('xa_noattr_val')
    except Exception as e:
        if not any(k==1 for k in n): note('xa_noattr_exc', type(e).__name__, str(e)[:80], n)
for k_, v in bad.items(): print(k_, len(v), v[0])
print('done')
