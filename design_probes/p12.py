import warnings, numpy as np, os, itertools
warnings.simplefilter('ignore')
import discretisedfield as df
rng = np.random.default_rng(3)
for n, n2 in [((4,),(6,)), ((4,5),(6,4)), ((4,5,3,3),(6,4,6,5)), ((4,5,3),(6,4,6))]:
    nd = len(n)
    mesh = df.Mesh(p1=(0,)*nd, p2=tuple(float(k) for k in n), n=n)
    f = df.Field(mesh, nvdim=1, value=np.arange(np.prod(n), dtype=float).reshape(*n,1))
    r = f.resample(n2)
    badc = 0
    for idx in r.mesh.indices:
        p = r.mesh.index2point(idx)
        rel = (p - mesh.region.pmin)/mesh.cell
        cands = [ [int(np.clip(np.floor(q),0,k-1))] + ([int(np.clip(np.floor(q)-1,0,k-1))] if abs(q-round(q))<1e-6 else []) for q,k in zip(rel,n)]
        ok = any(np.array_equal(r.array[idx], f.array[c]) for c in itertools.product(*cands))
        if not ok:
            badc += 1
            if badc < 3: print(n, n2, idx, p, 'got', r.array[idx], 'cands', [f.array[c] for c in itertools.product(*cands)], 'where', np.argwhere(f.array[...,0]==r.array[idx][0]))
    print(n, n2, 'bad', badc)
