import warnings, numpy as np, os, itertools, tempfile, collections, copy
warnings.simplefilter('ignore')
import discretisedfield as df
rng = np.random.default_rng(12)
bad = {}
def note(k, *a): bad.setdefault(k, []).append(a)
def inv_region(r):
    return np.all(r.pmin < r.pmax) and len(r.dims)==r.ndim==len(r.units) and len(set(r.dims))==r.ndim
def inv_mesh(m):
    return inv_region(m.region) and np.all(m.n>0) and m.n.dtype.kind=='i' and np.allclose(m.cell*m.n, m.region.edges, rtol=1e-12) and all(inv_region(s) for s in m.subregions.values())
def snapshot(m):
    return (m.region.pmin.copy(), m.region.pmax.copy(), m.region.units, m.n.copy(), {k:(s.pmin.copy(), s.pmax.copy(), s.units) for k,s in m.subregions.items()})
def same(a,b, tol=1e-9):
    sc = max(np.abs(a[0]).max(), np.abs(a[1]).max(), 1e-300)
    return (np.allclose(a[0],b[0],rtol=tol,atol=tol*sc) and np.allclose(a[1],b[1],rtol=tol,atol=tol*sc) and a[2]==b[2] and np.array_equal(a[3],b[3]) and a[4].keys()==b[4].keys()
        and all(np.allclose(a[4][k][0],b[4][k][0],rtol=tol,atol=tol*sc) and np.allclose(a[4][k][1],b[4][k][1],rtol=tol,atol=tol*sc) and a[4][k][2]==b[4][k][2] for k in a[4]))
for t in range(400):
    nd = int(rng.integers(1,5)); n = rng.integers(1,5,nd)
    cell = rng.uniform(0.5,3,nd); p1 = rng.uniform(-1,1,nd)*cell*n
    dims = [['a','b','c','d'][i] for i in range(nd)]; units=[f'u{i}' for i in range(nd)]
    region = df.Region(p1=p1, p2=p1+cell*n, dims=dims, units=units)
    mesh0 = df.Mesh(region=region, n=n)
    v = mesh0.vertices
    lo = np.array([rng.integers(0,k) for k in n]); hi = np.array([rng.integers(l+1,k+1) for l,k in zip(lo,n)])
    sr = {'s': df.Region(p1=[v[d][lo[d]].item() for d in range(nd)], p2=[v[d][hi[d]].item() for d in range(nd)])}
    mesh = df.Mesh(region=region, n=n, subregions=sr)
    hist = []
    for step in range(6):
        kind = rng.choice(['translate','scale','rotate'] if nd>1 else ['translate','scale'])
        inplace = bool(rng.random()<0.5)
        if kind=='translate':
            args = dict(vector=tuple(rng.normal(size=nd).tolist()))
        elif kind=='scale':
            fac = float(rng.choice([2,0.5,-1,-3,1.7])) if rng.random()<0.5 else tuple(float(x) for x in rng.choice([2,0.5,-1,1.7], nd))
            ref = None if rng.random()<0.5 else tuple((rng.normal(size=nd)*10).tolist())
            args = dict(factor=fac, reference_point=ref)
        else:
            a,b = rng.choice(nd,2,replace=False)
            args = dict(ax1=dims[a], ax2=dims[b], k=int(rng.integers(-5,6)), reference_point=None if rng.random()<0.5 else tuple((rng.normal(size=nd)*10).tolist()))
        hist.append((kind, inplace, args))
        before = snapshot(mesh)
        try:
            cp = getattr(mesh, kind if kind!='rotate' else 'rotate90')(**args)
        except Exception as e:
            note('copy_exc', kind, type(e).__name__, str(e)[:80], hist); break
        if not same(snapshot(mesh), before, 0): note('copy_mutated', kind); break
        if inplace:
            tgt = mesh
            ret = getattr(tgt, kind if kind!='rotate' else 'rotate90')(**args, inplace=True)
            if ret is not tgt: note('inplace_ret')
            if not same(snapshot(tgt), snapshot(cp)): note('inplace_ne_copy', kind, args, snapshot(tgt)[:3], snapshot(cp)[:3]); break
            if not inv_mesh(tgt): note('inv_inplace', kind, args); break
        else:
            mesh = cp
        if not inv_mesh(mesh): note('inv', kind, args); break
print({k:(len(v), v[0]) for k,v in bad.items()})
print(collections.Counter(str(x[0]) for x in bad.get('inplace_ne_copy', [])))
for x in bad.get('inplace_ne_copy', []):
    if str(x[0])=='scale': print(x); break
for x in bad.get('inplace_ne_copy', []):
    if str(x[0])=='translate': print(x); break
