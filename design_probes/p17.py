import warnings, numpy as np, os, itertools, tempfile
warnings.simplefilter('ignore')
import discretisedfield as df
rng = np.random.default_rng(8)
bad = {}
def note(k, *a): bad.setdefault(k, []).append(a)
# C05: polynomial fields deg<=2, permuted mapping, renamed dims
for t in range(300):
    nd = int(rng.integers(1,5)); n = rng.integers(3,6,nd)
    cell = rng.uniform(0.5,3,nd)
    p1 = rng.uniform(-1,1,nd)*cell*n
    dims = list(rng.permutation(['p','q','r','s'])[:nd])
    mesh = df.Mesh(region=df.Region(p1=p1, p2=p1+cell*n, dims=dims), n=n)
    X = np.stack(np.meshgrid(*[mesh.cells[i] for i in range(nd)], indexing='ij'), axis=-1)  # (*n, nd)
    def randpoly():
        A = rng.normal(size=(nd,nd)); A = (A+A.T)/2; b = rng.normal(size=nd); c = rng.normal()
        val = np.einsum('...i,ij,...j->...', X, A, X) + X@b + c
        grad = 2*X@A + b   # (*n, nd)
        hess = 2*A
        return val, grad, hess
    # scalar grad + laplace
    val, grad, hess = randpoly()
    f = df.Field(mesh, nvdim=1, value=val[...,None])
    g = f.grad
    if not np.allclose(g.array, grad, rtol=1e-9, atol=1e-9): note('grad')
    if not np.allclose(f.laplace.array[...,0], np.trace(hess), rtol=1e-8, atol=1e-8): note('laplace')
    # vector field with permuted mapping
    comps = [randpoly() for _ in range(nd)]   # component physically along axis i
    perm = rng.permutation(nd)                # vdims position j holds axis perm[j]
    vd = [f'm{j}' for j in range(nd)]
    arr = np.stack([comps[perm[j]][0] for j in range(nd)], axis=-1)
    mapping = {vd[j]: dims[perm[j]] for j in range(nd)}
    if nd == 1:
        v = df.Field(mesh, nvdim=1, value=arr, vdims=vd, vdim_mapping=mapping)
    else:
        v = df.Field(mesh, nvdim=nd, value=arr, vdims=vd, vdim_mapping=mapping)
    try:
        d = v.div
        exp = sum(comps[i][1][..., i] for i in range(nd))
        if not np.allclose(d.array[...,0], exp, rtol=1e-9, atol=1e-9): note('div', nd, perm)
    except Exception as e: note('div_exc', nd, type(e).__name__, str(e)[:80])
    if nd == 3:
        c = v.curl
        G = [comps[i][1] for i in range(3)]  # G[i][..., j] = d comp_i / d x_j
        exp = np.stack([G[2][...,1]-G[1][...,2], G[0][...,2]-G[2][...,0], G[1][...,0]-G[0][...,1]], axis=-1)
        # result components: which order/labels?
        if not np.allclose(c.array, exp, rtol=1e-9, atol=1e-9): note('curl', perm, c.vdims, c.vdim_mapping)
        # identities on random data
        rf = df.Field(mesh, nvdim=1, value=rng.normal(size=(*n,1)))
        cg = rf.grad.curl
        if np.abs(cg.array).max() > 1e-9*np.abs(rf.array).max()/cell.min()**2: note('curlgrad', np.abs(cg.array).max())
        rv = df.Field(mesh, nvdim=3, value=rng.normal(size=(*n,3)), vdims=vd, vdim_mapping=mapping)
        dc = rv.curl.div
        if np.abs(dc.array).max() > 1e-9/cell.min()**2: note('divcurl', np.abs(dc.array).max())
    lv = v.laplace if nd>1 else None
    if lv is not None:
        exp = np.stack([np.full(tuple(n), np.trace(comps[perm[j]][2])) for j in range(nd)], axis=-1)
        if not np.allclose(lv.array, exp, rtol=1e-8, atol=1e-8): note('veclaplace')
print({k:(len(v), v[0]) for k,v in bad.items()})
