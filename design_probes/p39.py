import warnings, numpy as np, itertools
warnings.simplefilter('ignore')
import discretisedfield as df
np.seterr(all='ignore')
rng = np.random.default_rng(24)
bad = {}
def note(k, *a): bad.setdefault(k, []).append(a)
for t in range(300):
    nd = int(rng.integers(1,5)); n = rng.integers(1,4,nd); cell = rng.uniform(0.5,2,nd); p1 = rng.uniform(-3,3,nd)
    mesh = df.Mesh(p1=tuple(p1.tolist()), p2=tuple((p1+cell*n).tolist()), n=tuple(int(k) for k in n))
    def rf(nv, custom=None):
        kind = rng.choice(['float','int','complex'])
        a = rng.normal(size=(*n,nv))
        if kind=='int': a = rng.integers(-4,5,size=(*n,nv))
        if kind=='complex': a = a+1j*rng.normal(size=(*n,nv))
        vd=None; mp=None
        if nv>1 and (custom if custom is not None else rng.random()<0.5):
            vd=[f'c{i}' for i in range(nv)]
            if nv==nd: mp = dict(zip(vd, rng.permutation(list(mesh.region.dims)).tolist()))
        return df.Field(mesh, nvdim=nv, value=a, valid=rng.random(n)>0.3, vdims=vd, vdim_mapping=mp, dtype=a.dtype)
    nv = int(rng.integers(2,5))
    a = rf(nv); b = rf(nv)
    # dot
    for (x,y,tag) in [(a,b,'ff'), (a, tuple(rng.normal(size=nv).tolist()), 'fv')]:
        try:
            r = x.dot(y); ya = y.array if isinstance(y, df.Field) else np.asarray(y)
            exp = np.sum(x.array*ya, axis=-1, keepdims=True)
            if not np.allclose(r.array, exp, rtol=1e-12, atol=1e-12): note('dot_'+tag)
            if r.nvdim!=1: note('dot_nvdim')
            r2 = x @ y
            if not np.array_equal(r2.array, r.array): note('matmul')
            if isinstance(y, tuple):
                r3 = y @ x
                if not np.allclose(r3.array, exp, rtol=1e-12, atol=1e-12): note('rmatmul')
        except Exception as e: note('dot_exc_'+tag, type(e).__name__, str(e)[:60])
    # cross
    a3 = rf(3); b3 = rf(3)
    try:
        r = a3 & b3
        if not np.array_equal(r.array, np.cross(a3.array, b3.array)): note('cross')
        vec = tuple(rng.normal(size=3).tolist())
        r = vec & a3
        if not np.allclose(r.array, np.cross(np.asarray(vec), a3.array), rtol=1e-13, atol=1e-13): note('rcross')
    except Exception as e: note('cross_exc', type(e).__name__, str(e)[:60])
    # angle
    try:
        ar = df.Field(mesh, nvdim=3, value=rng.normal(size=(*n,3))); br = df.Field(mesh, nvdim=3, value=rng.normal(size=(*n,3)))
        ang = ar.angle(br)
        cosv = np.sum(ar.array*br.array,-1)/(np.linalg.norm(ar.array,axis=-1)*np.linalg.norm(br.array,axis=-1))
        if not np.allclose(np.cos(ang.array[...,0]), cosv, atol=1e-12): note('angle')
        if np.any(ang.array<0) or np.any(ang.array>np.pi): note('angle_range')
    except Exception as e: note('angle_exc', type(e).__name__, str(e)[:60])
    # stacking reproduces
    d = rf(nv, custom=False) if nv<=3 else rf(nv, custom=True)
    comps = [getattr(d, c) for c in d.vdims]
    st = comps[0]
    for c in comps[1:]: st = st << c
    if not (np.array_equal(st.array, d.array) and np.array_equal(st.valid, d.valid) and st.mesh==d.mesh): note('stack_val')
    if nv<=3 and (st.vdims != d.vdims or st.vdim_mapping != d.vdim_mapping): note('stack_meta', st.vdims, d.vdims, st.vdim_mapping, d.vdim_mapping)
    # ufuncs
    for uf in (np.sin, np.exp, np.negative, np.square, np.conjugate):
        try:
            r = uf(a)
            if not isinstance(r, df.Field): note('ufunc_notfield', uf.__name__, type(r))
            elif not np.array_equal(r.array, uf(a.array), equal_nan=True): note('ufunc_val', uf.__name__)
        except Exception as e: note('ufunc_exc', uf.__name__, type(e).__name__, str(e)[:60])
    for uf in (np.add, np.multiply, np.arctan2 , np.maximum):
        try:
            x = df.Field(mesh, nvdim=nv, value=rng.normal(size=(*n,nv))); y = df.Field(mesh, nvdim=nv, value=rng.normal(size=(*n,nv)))
            r = uf(x, y)
            if not np.array_equal(r.array, uf(x.array,y.array)): note('ufunc2_val', uf.__name__)
            r = uf(x, 2.0); r = uf(2.0, x)
            if not np.array_equal(r.array, uf(2.0, x.array)): note('ufunc2r_val', uf.__name__)
        except Exception as e: note('ufunc2_exc', uf.__name__, type(e).__name__, str(e)[:60])
    # complex parts
    c = rf(nv)
    for nm, fn in [('real', np.real), ('imag', np.imag), ('conjugate', np.conjugate), ('abs', np.abs), ('phase', np.angle)]:
        try:
            r = getattr(c, nm)
            if not np.array_equal(r.array, fn(c.array)): note('cplx_'+nm)
            if r.vdims != c.vdims: note('cplx_vdims_'+nm)
        except Exception as e: note('cplx_exc_'+nm, type(e).__name__, str(e)[:60])
    # mismatch rejection
    mesh2 = mesh.translate(tuple((cell*rng.integers(1,3,nd)).tolist()))
    o = df.Field(mesh2, nvdim=nv, value=(1.0,)*nv)
    for nm, op in [('add', lambda x,y:x+y), ('sub', lambda x,y:x-y), ('mul', lambda x,y:x*y), ('div', lambda x,y:x/y), ('pow', lambda x,y:x**y), ('dot', lambda x,y:x.dot(y)), ('lshift', lambda x,y:x<<y), ('npadd', lambda x,y: np.add(x,y)), ('npmul', lambda x,y: np.multiply(x,y))] + ([('cross', lambda x,y:x&y), ('angle', lambda x,y:x.angle(y))] if nv==3 else []):
        try:
            op(a, o); note('mesh_mismatch_accepted_'+nm)
        except Exception: pass
    if nv>=2:
        w = rf(nv+1)
        for nm, op in [('add', lambda x,y:x+y), ('mul', lambda x,y:x*y), ('dot', lambda x,y:x.dot(y)), ('npadd', lambda x,y: np.add(x,y))]:
            try:
                op(a, w); note('dim_mismatch_accepted_'+nm)
            except Exception: pass
print({k:(len(v), v[0]) for k,v in sorted(bad.items())})
