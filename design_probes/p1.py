import warnings, numpy as np, h5py, os
import discretisedfield as df
print(df.__version__, np.__version__)

# 1. hdf5 legacy
f = h5py.File('/repo/discretisedfield/tests/test_sample/hdf5-file.hdf5','r')
print('hdf5 sample attrs', dict(f.attrs)); 
def pr(n,o): print(n,o)
f.visititems(pr)
f.close()
try:
    fld = df.Field.from_file('/repo/discretisedfield/tests/test_sample/hdf5-file.hdf5')
    print('legacy ok', fld.nvdim, fld.mesh.n)
except Exception as e:
    print('legacy FAIL', type(e), e)

# 2. unit None through hdf5 and ovf
mesh = df.Mesh(p1=(0,0,0), p2=(10,10,10), n=(20,20,20), subregions={'a': df.Region(p1=(0.5,0.5,0.5), p2=(1.5,2,3))})
fld = df.Field(mesh, nvdim=3, value=(1,2,3))
fld.to_file('t.hdf5'); r = df.Field.from_file('t.hdf5')
print('hdf5 unit', repr(r.unit), 'subregions', r.mesh.subregions, 'orig', mesh.subregions)
mesh2 = df.Mesh(p1=(0,0,0), p2=(10,10,10), n=(20,20,20))
fld = df.Field(mesh2, nvdim=3, value=(1,2,3), vdims=['m_x','m_y','m_z'])
fld.to_file('t.ovf'); r = df.Field.from_file('t.ovf')
print('ovf unit', repr(r.unit), r.vdims)
