import warnings, numpy as np, itertools, tempfile, os, json
warnings.simplefilter('ignore')
import discretisedfield as df
rng = np.random.default_rng(22)
bad = {}
def note(k, *a): bad.setdefault(k, []).append(a)
tmp = tempfile.mkdtemp()
def lattice_ok(mesh, tol=1e-6):
    reg = mesh.region; n = mesh.n; cell = mesh.cell
    for k, sr in mesh.subregions.items():
        lo = (sr.pmin-reg.pmin)/cell; hi = (sr.pmax-reg.pmin)/cell
        if not (np.all(np.abs(lo-np.round(lo))<tol) and np.all(np.abs(hi-np.round(hi))<tol) and np.all(np.round(hi)-np.round(lo)>=1) and np.all(np.round(lo)>=0) and np.all(np.round(hi)<=n)): return False
        if sr.dims != reg.dims or sr.units != reg.units: return False
    return True
def idxbox(mesh, sr):
    lo = np.round((sr.pmin-mesh.region.pmin)/mesh.cell).astype(int); hi = np.round((sr.pmax-mesh.region.pmin)/mesh.cell).astype(int); return lo,hi
for t in range(500):
    nd = int(rng.integers(1,5)); n = rng.integers(1,6,nd); cell = rng.uniform(0.5,2,nd)*10.0**rng.integers(-9,1); p1 = rng.uniform(-3,3,nd)*cell*rng.choice([0,1,30])
    dims = [['a','b','c','d'][i] for i in range(nd)]; units=[f'u{i}' for i in range(nd)]
    region = df.Region(p1=p1, p2=p1+cell*n, dims=dims, units=units)
    m0 = df.Mesh(region=region, n=n); v = m0.vertices
    boxes = {}
    for j in range(int(rng.integers(1,4))):
        lo = np.array([rng.integers(0,k) for k in n]); hi = np.array([rng.integers(l+1,k+1) for l,k in zip(lo,n)]); boxes[f's{j}'] = (lo,hi)
    sr = {k: df.Region(p1=[v[i][lo[i]].item() for i in range(nd)], p2=[v[i][hi[i]].item() for i in range(nd)]) for k,(lo,hi) in boxes.items()}
    try: mesh = df.Mesh(region=region, n=n, subregions=sr)
    except Exception as e: note('accept', str(e)[:50]); continue
    if not lattice_ok(mesh): note('inv_ctor')
    # rejected candidates keep previous
    before = {k:(s.pmin.copy(), s.pmax.copy()) for k,s in mesh.subregions.items()}
    ax = int(rng.integers(0,nd))
    kind = rng.choice(['shift','outside','frac'])
    lo,hi = boxes['s0']; q1 = np.array([v[i][lo[i]] for i in range(nd)]); q2 = np.array([v[i][hi[i]] for i in range(nd)])
    if kind=='shift':
        if hi[ax]==n[ax] : q1[ax] -= 0.3*mesh.cell[ax]; q2[ax] -= 0.3*mesh.cell[ax]
        else: q1[ax] += 0.3*mesh.cell[ax]; q2[ax] += 0.3*mesh.cell[ax]
        if q1[ax] < region.pmin[ax]: kind='outside'
    elif kind=='outside': q2[ax] = region.pmax[ax] + 0.5*mesh.cell[ax]* (1+rng.integers(0,3))
    else: q2[ax] = q1[ax] + (hi[ax]-lo[ax]-0.5)*mesh.cell[ax] if hi[ax]-lo[ax]>=1 else q2[ax]
    try:
        mesh.subregions = {'bad': df.Region(p1=q1, p2=q2)}
        note('bad_accepted', kind)
    except Exception as e:
        after = {k:(s.pmin.copy(), s.pmax.copy()) for k,s in mesh.subregions.items()}
        if before.keys()!=after.keys() or any(not (np.array_equal(before[k][0],after[k][0]) and np.array_equal(before[k][1],after[k][1])) for k in before): note('prev_lost')
    # transformations
    for step in range(3):
        tr = rng.choice(['translate','scale','rotate']) if nd>1 else rng.choice(['translate','scale'])
        try:
            if tr=='translate': mesh2 = mesh.translate(tuple((rng.normal(size=nd)*cell*3).tolist()))
            elif tr=='scale': mesh2 = mesh.scale(float(rng.choice([0.5,2,3.3,1/3])), reference_point=None if rng.random()<0.5 else tuple((rng.normal(size=nd)*cell*5).tolist()))
            else:
                a,b = rng.choice(nd,2,replace=False); mesh2 = mesh.rotate90(dims[a],dims[b],k=int(rng.integers(-3,4)), reference_point=None if rng.random()<0.5 else tuple((rng.normal(size=nd)*cell*5).tolist()))
        except Exception as e: note('transform_exc', tr, type(e).__name__, str(e)[:80]); break
        if not lattice_ok(mesh2): note('inv_transform', tr)
        mesh = mesh2
    # named extraction
    for k in mesh.subregions:
        sub = mesh[k]
        if sub.region != mesh.subregions[k] or not np.allclose(sub.cell, mesh.cell, rtol=1e-9): note('named', sub.cell, mesh.cell)
    # json round trip
    fn = os.path.join(tmp,'x.ovf'); mesh.save_subregions(fn)
    m3 = df.Mesh(region=mesh.region, n=mesh.n); m3.load_subregions(fn)
    if m3.subregions.keys()!=mesh.subregions.keys() or any(m3.subregions[k]!=mesh.subregions[k] for k in mesh.subregions): note('json')
    if list(m3.subregions) != list(mesh.subregions): note('json_order')
    # sel plane/range expected from indices
    ax = int(rng.integers(0,mesh.region.ndim)); d = mesh.region.dims[ax]; nn = mesh.n
    lo_i = int(rng.integers(0,nn[ax])); hi_i = int(rng.integers(lo_i,nn[ax]))
    a_ = mesh.region.pmin[ax] + (lo_i+0.5)*mesh.cell[ax]; b_ = mesh.region.pmin[ax] + (hi_i+0.5)*mesh.cell[ax]
    try:
        s = mesh.sel(**{d:(a_,b_)})
        exp = {}
        for k, srr in mesh.subregions.items():
            l,h = idxbox(mesh, srr)
            if l[ax] <= hi_i and h[ax] > lo_i: exp[k] = (max(l[ax],lo_i)-lo_i, min(h[ax],hi_i+1)-lo_i)
        if set(s.subregions)!=set(exp): note('sel_sub_set', set(s.subregions), set(exp))
        else:
            for k in exp:
                l2,h2 = idxbox(s, s.subregions[k])
                if (l2[ax],h2[ax]) != exp[k]: note('sel_sub_clip', (l2[ax],h2[ax]), exp[k])
        if not lattice_ok(s): note('inv_sel')
    except Exception as e: note('sel_exc', str(e)[:60])
    if mesh.region.ndim>1:
        try:
            s = mesh.sel(**{d: a_})
            exp = {k for k,srr in mesh.subregions.items() if idxbox(mesh,srr)[0][ax] <= lo_i < idxbox(mesh,srr)[1][ax]}
            if set(s.subregions)!=exp: note('selplane_sub_set')
            if not lattice_ok(s): note('inv_selplane')
        except Exception as e: note('selplane_exc', str(e)[:60])
import collections
print({k:(len(v), v[0]) for k,v in sorted(bad.items())})
