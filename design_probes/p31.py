import warnings, numpy as np, struct, os, tempfile
warnings.simplefilter('ignore')
import discretisedfield as df
rng = np.random.default_rng(19)
tmp = tempfile.mkdtemp()
def write_ovf(fn, version, rep, pmin, cell, n, data, unit='A/m', style='oommf'):
    # data shape (nx,ny,nz,dim); file order x fastest
    dim = data.shape[-1]
    pmax = [pmin[i]+cell[i]*n[i] for i in range(3)]
    L = []
    L.append('# OOMMF: rectangular mesh v1.0' if version==1 else '# OOMMF OVF 2.0')
    L += ['# Segment count: 1', '# Begin: Segment', '# Begin: Header', '# Title: test', '# Desc: independent writer', '# meshtype: rectangular', '# meshunit: m']
    for i,a in enumerate('xyz'): L.append(f'# {a}base: {pmin[i]+cell[i]/2!r}')
    for i,a in enumerate('xyz'): L.append(f'# {a}stepsize: {cell[i]!r}')
    for i,a in enumerate('xyz'): L.append(f'# {a}nodes: {n[i]}')
    for i,a in enumerate('xyz'): L.append(f'# {a}min: {pmin[i]!r}')
    for i,a in enumerate('xyz'): L.append(f'# {a}max: {pmax[i]!r}')
    if version==1:
        L += [f'# valueunit: {unit}', '# valuemultiplier: 1', '# ValueRangeMinMag: 0', '# ValueRangeMaxMag: 1']
    else:
        L += [f'# valuedim: {dim}', '# valuelabels: ' + ' '.join(f'M_{c}' for c in 'abcdefg'[:dim]), '# valueunits: ' + ' '.join([unit]*dim)]
    L.append('# End: Header')
    flat = data.transpose(2,1,0,3).reshape(-1, dim)
    with open(fn,'wb') as f:
        if rep=='txt':
            L.append('# Begin: Data Text')
            f.write(('\n'.join(L)+'\n').encode())
            for row in flat: f.write((' '.join(repr(float(v)) for v in row) + (' ' if style=='mumax' else '') + '\n').encode())
            f.write(b'# End: Data Text\n# End: Segment\n')
        else:
            nb = 4 if rep=='bin4' else 8
            L.append(f'# Begin: Data Binary {nb}')
            f.write(('\n'.join(L)+'\n').encode())
            end = '>' if version==1 else '<'
            code = 'f' if nb==4 else 'd'
            f.write(struct.pack(end+code, 1234567.0 if nb==4 else 123456789012345.0))
            f.write(flat.astype(end+code).tobytes())
            f.write(f'\n# End: Data Binary {nb}\n# End: Segment\n'.encode())
bad = []
for t in range(60):
    n = [int(x) for x in rng.integers(1,6,3)]; cell = [float(x) for x in rng.uniform(0.5,3,3)*10.0**rng.integers(-9,2)]; pmin = [float(x) for x in rng.uniform(-3,3,3)*np.array(cell)]
    for version in (1,2):
        dim = 3 if version==1 else int(rng.integers(1,6))
        data = rng.normal(size=(*n,dim))*10.0**rng.integers(-5,8)
        for rep in ('txt','bin4','bin8'):
            fn = os.path.join(tmp, 'f.ovf'); write_ovf(fn, version, rep, pmin, cell, n, data, style=rng.choice(['oommf','mumax']))
            try: r = df.Field.from_file(fn)
            except Exception as e: bad.append(('exc', version, rep, type(e).__name__, str(e)[:100])); continue
            exp = data.astype(np.float32).astype(float) if rep=='bin4' else data
            if not np.array_equal(r.mesh.n, n): bad.append(('n', version, rep))
            if not np.allclose(r.mesh.region.pmin, pmin, rtol=1e-15, atol=0) : bad.append(('pmin', version, rep, r.mesh.region.pmin, pmin))
            if r.nvdim != dim: bad.append(('dim', version, rep))
            if not np.array_equal(r.array, exp): bad.append(('val', version, rep, np.abs(r.array-exp).max()))
            if r.unit != 'A/m': bad.append(('unit', version, rep, r.unit))
import collections
print(collections.Counter(x[:3] for x in bad)); print(bad[:3])
