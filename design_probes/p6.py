import warnings, numpy as np, os, itertools
import discretisedfield as df
import xarray as xr
# fft single cell axis
mesh = df.Mesh(p1=(0,0), p2=(10,2), n=(5,1))
k = mesh.fftn()
print('kmesh cells', k.cells, 'n', k.n, k.region.pmin, k.region.pmax)
f = df.Field(mesh, nvdim=1, value=lambda p: p[0])
F = f.fftn(); print(F.mesh.cells)
b = F.ifftn(); print('back mesh', b.mesh.region.pmin, b.mesh.region.pmax, b.mesh.n, np.allclose(b.array.real, f.array))
# rfft odd
mesh = df.Mesh(p1=(0,0), p2=(10,7), n=(5,7))
f = df.Field(mesh, nvdim=2, value=lambda p: (p[0], np.sin(p[1])))
R = f.rfftn(); print('rfft n', R.mesh.n, R.mesh.cells.k_y)
b = R.irfftn(shape=mesh.n); print('irfft ok', np.allclose(b.array, f.array), b.mesh.n, b.mesh.region.pmin, b.mesh.region.pmax)
try:
    b2 = R.irfftn(); print('irfft default shape', b2.mesh.n)
except Exception as e: print('irfftn default raised', type(e).__name__, e)
# int dtype rotation
mesh = df.Mesh(p1=(0,0), p2=(3,2), n=(3,2))
arr = np.arange(12).reshape(3,2,2)
fi = df.Field(mesh, nvdim=2, value=arr, dtype=int)
for k_ in (1,2,3,-1):
    r = fi.rotate90('x','y',k=k_)
    ff = df.Field(mesh, nvdim=2, value=arr.astype(float)).rotate90('x','y',k=k_)
    print('k', k_, 'int dtype', r.array.dtype, 'max diff int vs float', np.abs(r.array - np.round(ff.array)).max())
# xarray nm unevenly spaced
xa = xr.DataArray(np.arange(3.), dims=['x'], coords={'x':[0.5e-9,1.5e-9,3.5e-9]}, attrs={'nvdim':1})
try:
    f = df.Field.from_xarray(xa); print('uneven nm accepted', f.mesh.region.pmin, f.mesh.region.pmax, f.mesh.n)
except Exception as e: print('uneven nm rejected', type(e).__name__, e)
xa = xr.DataArray(np.arange(3.), dims=['x'], coords={'x':[0.5,1.5,3.5]}, attrs={'nvdim':1})
try:
    f = df.Field.from_xarray(xa); print('uneven accepted', f.mesh.region.pmin, f.mesh.region.pmax, f.mesh.n)
except Exception as e: print('uneven rejected', type(e).__name__, e)
