import warnings, numpy as np, os, itertools
warnings.simplefilter('ignore')
import discretisedfield as df
rng = np.random.default_rng(2)
# C12: rotate90 with random data; oracle g(R+Q(p-R)) = Q f(p)
def check_rot(nd, trial):
    n = rng.integers(1, 5, nd)
    edges = rng.uniform(0.5, 3, nd)*10.0**rng.integers(-9, 3)
    p1 = rng.uniform(-1,1,nd)*edges
    dims = [['a','b','c','d'][i] for i in range(nd)]
    mesh = df.Mesh(region=df.Region(p1=p1, p2=p1+edges, dims=dims, units=[f'u{i}' for i in range(nd)]), n=n)
    nv = int(rng.choice([1, nd, nd+1]))
    if nv == 1:
        f = df.Field(mesh, nvdim=1, value=rng.normal(size=(*n,1)), valid=rng.random(n)>0.3)
        mapping = {}
    else:
        vd = [f'v{i}' for i in range(nv)]
        perm = rng.permutation(nd)
        mapping = {vd[i]: dims[perm[i]] for i in range(nd)}  # extra comps unmapped
        try:
            f = df.Field(mesh, nvdim=nv, value=rng.normal(size=(*n,nv)), vdims=vd, vdim_mapping=mapping if nv==nd else None, valid=rng.random(n)>0.3)
            if nv != nd:
                f._vdim_mapping = mapping  # partial mapping cannot be set through setter?
        except Exception as e:
            return ('ctor', str(e))
    a, b = rng.choice(nd, 2, replace=False)
    k = int(rng.integers(-6, 7))
    ref = None if rng.random()<0.5 else tuple((p1 + rng.uniform(-2,3,nd)*edges).tolist())
    try:
        g = f.rotate90(dims[a], dims[b], k=k, reference_point=ref)
    except Exception as e:
        return ('exc', type(e).__name__, str(e)[:80], nv, nd, mapping)
    R = mesh.region.center if ref is None else np.array(ref)
    kk = k % 4
    c, s = [(1,0),(0,1),(-1,0),(0,-1)][kk]
    rmap = {v:k_ for k_,v in mapping.items()}
    for idx in mesh.indices:
        p = mesh.index2point(idx)
        q = p.copy()
        da, db = p[a]-R[a], p[b]-R[b]
        q[a] = R[a] + c*da - s*db; q[b] = R[b] + s*da + c*db
        val = f.array[idx].copy()
        if nv > 1:
            ia = f.vdims.index(rmap[dims[a]]); ib = f.vdims.index(rmap[dims[b]])
            va, vb = val[ia], val[ib]
            val[ia] = c*va - s*vb; val[ib] = s*va + c*vb
        try:
            gi = g.mesh.point2index(q)
        except Exception as e:
            return ('p2i', str(e)[:80])
        if not np.allclose(g.array[gi], val, rtol=1e-12, atol=1e-12): return ('val', idx, g.array[gi], val, k)
        if g.valid[gi] != f.valid[idx]: return ('valid', idx)
    if kk % 2 == 1:
        exp_units = list(mesh.region.units); exp_units[a], exp_units[b] = exp_units[b], exp_units[a]
    else: exp_units = list(mesh.region.units)
    if list(g.mesh.region.units) != exp_units: return ('units', k, g.mesh.region.units, exp_units)
    return None
bad = {}
for t in range(600):
    r = check_rot(int(rng.integers(2,5)), t)
    if r: bad.setdefault(r[0], []).append(r)
for k_, v in bad.items(): print(k_, len(v), v[0])
print('done')
