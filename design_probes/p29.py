import warnings, numpy as np, itertools, collections, tempfile, os
warnings.simplefilter('ignore')
import discretisedfield as df
np.seterr(all='ignore')
rng = np.random.default_rng(17)
bad = {}
def note(k, *a): bad.setdefault(k, []).append(a)
tmp = tempfile.mkdtemp()
for t in range(300):
    nd = int(rng.integers(1,5)); n = rng.integers(1,5,nd); cell = rng.uniform(0.5,2,nd)*10.0**rng.integers(-9,2); p1 = rng.uniform(-3,3,nd)*cell
    dims = [['a','b','c','d'][i] for i in range(nd)]
    mesh = df.Mesh(region=df.Region(p1=p1, p2=p1+cell*n, dims=dims), n=n, bc=dims[0] if rng.random()<0.3 else '')
    nv = int(rng.choice([1, nd, 3]))
    valid = rng.random(n)>0.4
    arr = rng.normal(size=(*n,nv)); arr[rng.random(n)<0.2] = 0
    vd = [f'c{i}' for i in range(nv)] if nv>1 else None
    mp = dict(zip(vd, dims)) if nv==nd and nv>1 else None
    f = df.Field(mesh, nvdim=nv, value=arr, valid=valid, vdims=vd, vdim_mapping=mp)
    g = df.Field(mesh, nvdim=nv, value=np.repeat(valid[...,None].astype(float), nv, axis=-1), vdims=vd, vdim_mapping=mp)  # data-as-validity marker
    unary = {'neg': lambda x: -x, 'abs': lambda x: abs(x), 'norm': lambda x: x.norm, 'real': lambda x: x.real, 'imag': lambda x: x.imag, 'conj': lambda x: x.conjugate, 'absp': lambda x: x.abs, 'phase': lambda x: x.phase}
    if nv>1: unary['orientation'] = lambda x: x.orientation; unary['comp'] = lambda x: getattr(x, vd[0])
    for d in dims:
        unary[f'diff_{d}'] = lambda x, d=d: x.diff(d); unary[f'diff2_{d}'] = lambda x, d=d: x.diff(d, order=2)
    for name, op in unary.items():
        try: r = op(f)
        except Exception as e: note('exc_'+name.split('_')[0], type(e).__name__, str(e)[:80]); continue
        if not np.array_equal(r.valid, valid): note('unary_valid_'+name.split('_')[0])
        if r.valid.dtype != bool: note('unary_dtype_'+name.split('_')[0])
        if np.shares_memory(r.valid, f.valid): note('alias_'+name.split('_')[0])
    # mapped ops: compare with marker
    mapped = {}
    ax = int(rng.integers(0,nd)); d = dims[ax]
    i = int(rng.integers(0,n[ax])); x = mesh.region.pmin[ax] + (i+0.5)*mesh.cell[ax]
    if nd>1: mapped['selplane'] = lambda q: q.sel(**{d: x})
    mapped['selrange'] = lambda q: q.sel(**{d: (x, mesh.region.pmax[ax]-0.25*mesh.cell[ax])})
    pw = {d: (int(rng.integers(0,3)), int(rng.integers(0,3)))}
    mapped['pad_const'] = lambda q: q.pad(pw, mode='constant')
    mapped['pad_wrap'] = lambda q: q.pad(pw, mode='wrap')
    mapped['pad_edge'] = lambda q: q.pad(pw, mode='edge')
    n2 = tuple(int(q) for q in rng.integers(1,6,nd))
    mapped['resample'] = lambda q: q.resample(n2)
    if nd>1 and (nv==1 or nv==nd):
        a,b = rng.choice(nd,2,replace=False); k=int(rng.integers(-3,4))
        mapped['rot90'] = lambda q: q.rotate90(dims[a], dims[b], k=k)
    if nd==3:
        def h5(q):
            fn = os.path.join(tmp,'a.h5'); q.to_file(fn); return df.Field.from_file(fn)
        def vtk(q):
            fn = os.path.join(tmp,'a.vtk'); q.to_file(fn); return df.Field.from_file(fn)
        mapped['h5']=h5; mapped['vtk']=vtk
    for name, op in mapped.items():
        try: r = op(f); m = op(g)
        except Exception as e: note('exc_'+name, type(e).__name__, str(e)[:80]); continue
        mark = np.abs(m.array[...,0])>0.5 if name!='rot90' else np.abs(m.array).max(axis=-1)>0.5
        if name=='rot90' and nv>1:
            mark = np.linalg.norm(m.array, axis=-1) > 0.5   # rotated marker vector (1,1,..) keeps norm
        if not np.array_equal(np.asarray(r.valid).astype(bool), mark): note('mapped_valid_'+name, n, nv)
print({k:(len(v), v[0]) for k,v in sorted(bad.items())})
import shutil; shutil.rmtree(tmp)
