import warnings, numpy as np, itertools
warnings.simplefilter('ignore')
import discretisedfield as df
rng = np.random.default_rng(20)
bad = {}
def note(k, *a): bad.setdefault(k, []).append(a)
for t in range(300):
    nd = int(rng.integers(1,5)); n = rng.integers(1,7,nd); cell = rng.uniform(0.5,2,nd)*10.0**rng.integers(-9,3); p1 = rng.uniform(-3,3,nd)*cell
    dims = [['a','b','c','d'][i] for i in range(nd)]
    ax = int(rng.integers(0,nd)); d = dims[ax]
    periodic = rng.random()<0.5
    mesh = df.Mesh(region=df.Region(p1=p1, p2=p1+cell*n, dims=dims), n=n, bc=d if periodic else '')
    nv = int(rng.integers(1,4)); order = int(rng.integers(1,3))
    allvalid = rng.random()<0.4
    valid = np.ones(n,bool) if allvalid else rng.random(n)>0.3
    a = rng.normal(size=(*n,nv)); b = rng.normal(size=(*n,nv))
    f = df.Field(mesh, nvdim=nv, value=a, valid=valid, unit='T'); g = df.Field(mesh, nvdim=nv, value=b, valid=valid)
    D = lambda q: q.diff(d, order=order)
    df_ = D(f)
    if df_.unit != 'T' or not np.array_equal(df_.valid, valid) or df_.vdims != f.vdims or df_.mesh != mesh: note('meta')
    if np.any(df_.array[~valid] != 0): note('invalid_nonzero')
    al, be = rng.normal(size=2)
    lin = D(df.Field(mesh, nvdim=nv, value=al*a+be*b, valid=valid)).array
    ref = al*df_.array + be*D(g).array
    sc = (np.abs(a).max()+np.abs(b).max())/cell[ax]**order
    if not np.allclose(lin, ref, rtol=0, atol=1e-10*sc): note('linearity', np.abs(lin-ref).max()/sc)
    # locality: perturb invalid cells and other component -> unchanged on valid cells
    a2 = a.copy(); a2[~valid] = 1e30
    d2 = D(df.Field(mesh, nvdim=nv, value=a2, valid=valid)).array
    if not np.array_equal(d2[valid], df_.array[valid]): note('locality_invalid')
    if nv>1:
        a3 = a.copy(); a3[...,1] = rng.normal(size=n)*1e10
        d3 = D(df.Field(mesh, nvdim=nv, value=a3, valid=valid)).array
        if not np.array_equal(d3[...,0], df_.array[...,0]): note('locality_comp')
    # restrict2valid False == all valid
    r1 = f.diff(d, order=order, restrict2valid=False).array
    r2 = df.Field(mesh, nvdim=nv, value=a).diff(d, order=order).array
    if not np.array_equal(r1, r2): note('restrict_false')
    if periodic and allvalid:
        L = n[ax]
        if order==1: exp = (np.roll(a,-1,axis=ax)-np.roll(a,1,axis=ax))/(2*cell[ax])
        else: exp = (np.roll(a,-1,axis=ax)-2*a+np.roll(a,1,axis=ax))/cell[ax]**2
        if not np.allclose(df_.array, exp, rtol=0, atol=1e-10*sc): note('periodic_centred', L, order, np.abs(df_.array-exp).max()/sc)
        s = int(rng.integers(0,L))
        sh = D(df.Field(mesh, nvdim=nv, value=np.roll(a,s,axis=ax))).array
        if not np.allclose(sh, np.roll(df_.array,s,axis=ax), rtol=0, atol=1e-10*sc): note('periodic_shift')
print({k:(len(v), v[0]) for k,v in sorted(bad.items())})
# pad modes
bad = {}
for t in range(200):
    nd = int(rng.integers(1,5)); n = rng.integers(1,5,nd); cell = rng.uniform(0.5,2,nd); p1 = rng.uniform(-3,3,nd)*cell
    dims = [['a','b','c','d'][i] for i in range(nd)]
    mesh = df.Mesh(region=df.Region(p1=p1, p2=p1+cell*n, dims=dims), n=n)
    nv = int(rng.integers(1,4)); a = rng.normal(size=(*n,nv)); valid = rng.random(n)>0.3
    f = df.Field(mesh, nvdim=nv, value=a, valid=valid)
    pw = {dims[i]: (int(rng.integers(0,4)), int(rng.integers(0,4))) for i in range(nd) if rng.random()<0.6}
    mode = rng.choice(['constant','wrap','edge','symmetric','reflect'])
    try:
        p = f.pad(pw, mode=mode)
    except Exception as e:
        note('pad_exc', mode, type(e).__name__, str(e)[:80], n, pw); continue
    seq = [pw.get(dm,(0,0)) for dm in dims]
    if not np.array_equal(p.array, np.pad(a, seq+[(0,0)], mode=mode)): note('pad_val', mode)
    if not np.array_equal(p.valid, np.pad(valid, seq, mode=mode)): note('pad_valid', mode)
    exp_n = n + np.array([s[0]+s[1] for s in seq])
    if not np.array_equal(p.mesh.n, exp_n): note('pad_n')
    if not np.allclose(p.mesh.region.pmin, mesh.region.pmin - np.array([s[0] for s in seq])*cell, rtol=1e-12, atol=1e-12): note('pad_pmin')
    # pointwise
    for idx in mesh.indices:
        c = mesh.index2point(idx)
        if not np.array_equal(p(c), f(c)): note('pad_pointwise'); break
print({k:(len(v), v[0]) for k,v in sorted(bad.items())})
